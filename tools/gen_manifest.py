#!/usr/bin/env python3
"""Regenerates MANIFEST.json from tools/props/*.json (+ tools/manifest_static.json)."""
import json
import os
import subprocess
import sys

VERIF = os.path.dirname(os.path.dirname(os.path.abspath(__file__)))
sys.path.insert(0, os.path.join(VERIF, "tools"))
from props import PROPS  # noqa

static = json.load(open(os.path.join(VERIF, "tools", "manifest_static.json")))
all_ids = [json.loads(l)["id"] for l in open(os.path.join(VERIF, "properties.jsonl"))]
checks = []
for pid in all_ids:
    if pid not in PROPS:
        continue
    c = PROPS[pid]
    m = c["manifest"]
    checks.append({
        "property_id": pid,
        "quick_cmd": "python3 tools/check.py %s quick" % pid,
        "thorough_cmd": "python3 tools/check.py %s thorough" % pid,
        "evidence_file": "/verif/evidence/%s.json" % pid,
        "replay_cmd_template": "python3 tools/check.py %s --replay {path}" % pid,
        "engine": "monitors",
        "level_claimed": {"category": c["level"], "text": m["level_text"], "design_ref": "DESIGN.md section 5, " + pid},
        "level_note": m["level_note"],
        "technique": m["technique"],
    })
na = [x for x in static.get("not_applicable", []) if x["property_id"] not in PROPS]
for pid in all_ids:
    if pid not in PROPS and not any(x["property_id"] == pid for x in na):
        na.append({"property_id": pid, "reason": "check not built yet in this tree (runtime monitoring applies; see DESIGN.md section 5)"})
try:
    commits = subprocess.run(["git", "-C", "/repo", "log", "--format=%H %s"], stdout=subprocess.PIPE, text=True).stdout.splitlines()
    hook_commits = [l.split()[0] for l in commits if l.split(" ", 1)[1].startswith("verif hooks")]
except Exception:
    hook_commits = []
man = {
    "version": 1,
    "setup_cmd": static["setup_cmd"],
    "hooks": dict(static["hooks"], source_commits=hook_commits),
    "engines": static["engines"],
    "checks": checks,
    "notes": static["notes"],
    "not_applicable": na,
}
json.dump(man, open(os.path.join(VERIF, "MANIFEST.json"), "w"), indent=1)
print("MANIFEST.json: %d checks, %d not_applicable" % (len(checks), len(na)))
