#!/bin/bash
# usage: tools/seeded.sh <seed-dir e.g. /tmp/seed/C04/out/m1> <name e.g. C04-m1> <property> "<checks to run, e.g. C04 C01>"
# Confirms a seeded change in a scratch copy (builds, existing suite passes, demo fails with / passes without),
# stores it under /verif/seeded/<name>/ and runs the given checks against it (VERIF_REPO).
SRC=$1; NAME=$2; PROP=$3; CHECKS=$4; DEMODIR=${5:-leveldb}
export GOFLAGS=-mod=mod GOPROXY=off GOSUMDB=off GOTOOLCHAIN=local
OUT=/verif/seeded/$NAME
mkdir -p $OUT
cp $SRC/patch.diff $OUT/patch.diff
cp $SRC/README.txt $OUT/agent_README.txt 2>/dev/null
for f in $SRC/*_test.go $SRC/*.go; do [ -f "$f" ] && cp $f $OUT/; done
for d in $SRC/*/; do [ -d "$d" ] && cp -r $d $OUT/; done
D=/tmp/seedchk.$$
rsync -a --exclude .git /repo/ $D/
cd $D
LOG=$OUT/confirm.log
: > $LOG
# place demo files: *_test.go go to leveldb/ unless a directory layout is given
place_demo() {
  for f in $OUT/*_test.go; do [ -f "$f" ] && cp $f $D/$DEMODIR/; done
  for d in $OUT/*/; do b=$(basename $d); [ -d "$d" ] && [ "$b" != "." ] && ls $d/*.go >/dev/null 2>&1 && mkdir -p $D/leveldb/$b && cp $d/*.go $D/leveldb/$b/; done
}
DEMO_RUN='^TestSeed|^TestDemo|Seed|Demo'
place_demo
echo "== demo WITHOUT the change" >> $LOG
(timeout 900 go test -vet=off -count=1 -run "$DEMO_RUN" ./leveldb/... 2>&1 | tail -15) >> $LOG
WITHOUT=$(grep -c "^FAIL\|--- FAIL" $LOG)
git init -q . 2>/dev/null
if ! patch -p1 --dry-run < $OUT/patch.diff >/dev/null 2>&1; then echo "PATCH DOES NOT APPLY" >> $LOG; APPLY=fail; else patch -p1 -s < $OUT/patch.diff; APPLY=ok; fi
echo "== build with the change" >> $LOG
if go build ./... >> $LOG 2>&1; then BUILD=ok; else BUILD=fail; fi
echo "== demo WITH the change" >> $LOG
L0=$(wc -l < $LOG)
(timeout 900 go test -vet=off -count=1 -run "$DEMO_RUN" ./leveldb/... 2>&1 | tail -25) >> $LOG
WITH=$(tail -n +$L0 $LOG | grep -c "^FAIL\|--- FAIL")
echo "== existing suite WITH the change (demo files removed)" >> $LOG
rm -f $D/$DEMODIR/*seed*_test.go $D/$DEMODIR/*demo*_test.go; for d in $OUT/*/; do b=$(basename $d); [ -d "$D/leveldb/$b" ] && [ -d "$d" ] && rm -rf $D/leveldb/$b; done
L1=$(wc -l < $LOG)
(timeout 1500 go test -vet=off -count=1 -timeout 20m ./leveldb/... 2>&1 | tail -15) >> $LOG
SUITE=$(tail -n +$L1 $LOG | grep -c "^FAIL\|--- FAIL\|panic:")
RES=""
for c in $CHECKS; do
  echo "== check $c against the change" >> $LOG
  L2=$(wc -l < $LOG)
  (cd /verif && VERIF_REPO=$D VERIF_JOBS=${VERIF_JOBS:-8} timeout 2400 python3 tools/check.py $c quick 2>&1 | grep -v "^built" | cut -c1-400 | tail -8) >> $LOG
  if tail -n +$L2 $LOG | grep -q "^VIOLATION property="; then RES="$RES $c:CAUGHT"; else RES="$RES $c:missed"; fi
done
cd /verif
rm -rf $D
python3 - "$OUT" "$NAME" "$PROP" "$APPLY" "$BUILD" "$WITHOUT" "$WITH" "$SUITE" "$RES" <<'PY'
import json,sys
out,name,prop,apply,build,without,with_,suite,res=sys.argv[1:10]
meta={"id":name,"breaks_property":prop,"patch_applies":apply,"builds":build,
 "demo_without_change_failures":int(without),"demo_with_change_failures":int(with_),"existing_suite_failures_with_change":int(suite),
 "checks_run":res.split(),"confirmed": apply=="ok" and build=="ok" and int(without)==0 and int(with_)>0 and int(suite)==0,
 "needs_to_manifest":"see agent_README.txt","ran":"tools/seeded.sh (scratch copy of /repo; demo without/with the change; existing suite with the change; checks with VERIF_REPO)"}
json.dump(meta,open(out+"/meta.json","w"),indent=1)
print(name, meta["confirmed"], res)
PY
