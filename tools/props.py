# Per-property configuration of the orchestrator (tools/check.py): one JSON file per
# property under tools/props/.
#
# worker:  directory under harness/cmd/
# level:   evidence level (exploration | fault_enumeration | ...)
# passes:  each pass builds the worker (optionally "race": true) and runs `shards` child
#          processes; "timeout": {"quick": s, "thorough": s} is the orchestrator's watchdog
#          per child; "tier": restricts a pass to one tier; "extra": string handed to the worker;
#          "gomaxprocs": sets GOMAXPROCS for the children.
# rule / assumptions: copied into the evidence file.
# floors:  {"any"|"quick"|"thorough": {counter: minimum}} -- sanity floors far below what the
#          unchanged tree produces; a run below a floor is inconclusive (exit 2).
# timeout_is_violation: a child exceeding its watchdog is reported as a hang violation (C09 only).
import glob
import json
import os

PROPS = {}
for _p in sorted(glob.glob(os.path.join(os.path.dirname(os.path.abspath(__file__)), "props", "*.json"))):
    _c = json.load(open(_p))
    PROPS[os.path.splitext(os.path.basename(_p))[0]] = _c
