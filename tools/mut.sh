#!/bin/sh
# usage: tools/mut.sh <file-relative-to-repo> <old-string> <new-string> <ID> [tier]   (scratch copy, removed afterwards)
# Applies one textual mutant to a scratch copy of /repo and runs a check against it.
set -e
D=/tmp/mut.$$
rsync -a --exclude .git /repo/ $D/
python3 - "$D/$1" "$2" "$3" <<'PY'
import sys
p,old,new=sys.argv[1:4]
s=open(p).read()
assert s.count(old)>=1, "pattern not found"
s=s.replace(old,new,1)
open(p,'w').write(s)
PY
export GOFLAGS=-mod=mod GOPROXY=off GOSUMDB=off GOTOOLCHAIN=local
(cd $D && go build ./... ) || { echo "MUTANT DOES NOT COMPILE"; rm -rf $D; exit 3; }
set +e
VERIF_REPO=$D timeout ${MUT_TIMEOUT:-900} python3 "$(dirname "$0")/check.py" "$4" "${5:-quick}" 2>&1 | tail -${MUT_TAIL:-6}
echo "rc=$?"
rm -rf $D
