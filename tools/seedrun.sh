#!/bin/bash
# usage: tools/seedrun.sh <seeded-name> "<checks>" [tier]  -- applies /verif/seeded/<name>/patch.diff to a scratch copy of /repo and runs checks
NAME=$1; CHECKS=$2; TIER=${3:-quick}
export GOFLAGS=-mod=mod GOPROXY=off GOSUMDB=off GOTOOLCHAIN=local
D=/tmp/seedrun.$$
rsync -a --exclude .git /repo/ $D/
(cd $D && patch -p1 -s < /verif/seeded/$NAME/patch.diff) || { echo "PATCH FAILED"; rm -rf $D; exit 3; }
(cd $D && go build ./...) || { echo "BUILD FAILED"; rm -rf $D; exit 3; }
for c in $CHECKS; do
  out=$(cd /verif && VERIF_REPO=$D VERIF_JOBS=${VERIF_JOBS:-8} timeout ${SEED_TIMEOUT:-1800} python3 tools/check.py $c $TIER 2>&1 | grep -v "^built" | cut -c1-300 | tail -4)
  if echo "$out" | grep -q "^VIOLATION property="; then echo "$NAME $c:CAUGHT"; else echo "$NAME $c:missed"; fi
  echo "$out" | grep "^violation" | head -2
done
rm -rf $D
