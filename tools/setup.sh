#!/bin/sh
# Offline setup: nothing is fetched. Pre-warms the Go build cache for the harness
# (plain and -race) against /repo's working tree.
set -e
cd "$(dirname "$0")/../harness"
export GOFLAGS=-mod=mod GOPROXY=off GOSUMDB=off GOTOOLCHAIN=local GONOSUMDB='*'
sed "s#replace github.com/syndtr/goleveldb => .*#replace github.com/syndtr/goleveldb => /repo#" go.mod > go.verif.mod
cp go.sum go.verif.sum
go build -tags verif -modfile=go.verif.mod ./... 
go build -race -tags verif -modfile=go.verif.mod ./wk ./model ./vstor ./dbx 2>/dev/null || true
echo "setup ok"
