#!/bin/sh
# Offline setup: nothing is fetched. Pre-warms the Go build cache for the harness
# (plain and -race) against /repo's working tree. Failures here are not fatal:
# every check rebuilds its own worker and reports a build failure itself.
cd "$(dirname "$0")/../harness" || exit 1
export GOFLAGS=-mod=mod GOPROXY=off GOSUMDB=off GOTOOLCHAIN=local GONOSUMDB='*'
sed "s#replace github.com/syndtr/goleveldb => .*#replace github.com/syndtr/goleveldb => /repo#" go.mod > go.verif.mod
cp go.sum go.verif.sum
mkdir -p ../.build
for d in cmd/*/; do
  w=$(basename "$d")
  go build -tags verif -modfile=go.verif.mod -o ../.build/"$w" ./cmd/"$w" || echo "setup: $w does not build (its check will say so)"
done
go build -race -tags verif -modfile=go.verif.mod ./wk ./model ./vstor ./dbx ./lsm 2>/dev/null || true
echo "setup ok"
exit 0
