#!/usr/bin/env python3
"""Sensitivity trials: applies each textual mutant of MUTANTS to a scratch copy of /repo
(never to /repo itself), checks that it compiles, runs the named check(s) against it with
VERIF_REPO and records whether a VIOLATION was reported.  Results: /verif/mutants_results.json

usage: python3 tools/mutants.py [name-prefix ...]
"""
import json
import os
import shutil
import subprocess
import sys
import time

VERIF = os.path.dirname(os.path.dirname(os.path.abspath(__file__)))
ENV = dict(os.environ, GOFLAGS="-mod=mod", GOPROXY="off", GOSUMDB="off", GOTOOLCHAIN="local")

# (name, file, old, new, checks)
MUTANTS = [
    ("C01-a-first-l0-hit-wins", "leveldb/version.go", "\t\t\t\t\tif fseq >= zseq {", "\t\t\t\t\tif !zfound && fseq >= zseq {", "C01"),
    ("C01-b-tombstone-dropped-above-base", "leveldb/db_compaction.go", "case kt == keyTypeDel && seq <= b.minSeq && b.c.baseLevelForKey(lastUkey):", "case kt == keyTypeDel && seq <= b.minSeq:", "C01 C03"),
    ("C01-c-searchmin-in-walk", "leveldb/version.go", "if i := tables.searchMax(v.s.icmp, ikey); i < len(tables) {", "if i := tables.searchMin(v.s.icmp, ikey); i < len(tables) {", "C01"),
    ("C02-a-prev-without-rewind", "leveldb/db_iter.go", "\t\t\t\tif i.icmp.uCompare(ukey, i.key) < 0 {\n\t\t\t\t\tgoto cont\n\t\t\t\t}", "\t\t\t\tgoto cont", "C02"),
    ("C02-d-slice-to-every-table", "leveldb/table.go", "\tif i == 0 || i == a.Len()-1 {\n\t\treturn a.tops.newIterator(a.tFiles[i], a.slice, a.ro)\n\t}\n\treturn a.tops.newIterator(a.tFiles[i], nil, a.ro)", "\treturn a.tops.newIterator(a.tFiles[i], nil, a.ro)", "C02"),
    ("C02-e-dbiter-next-ge", "leveldb/db_iter.go", "if i.dir == dirSOI || i.icmp.uCompare(ukey, i.key) > 0 {", "if i.dir == dirSOI || i.icmp.uCompare(ukey, i.key) >= 0 {", "C02"),
    ("C03-b-tombstone-rule-ignores-snapshots", "leveldb/db_compaction.go", "case kt == keyTypeDel && seq <= b.minSeq && b.c.baseLevelForKey(lastUkey):", "case kt == keyTypeDel && b.c.baseLevelForKey(lastUkey):", "C03"),
    ("C03-c-shadow-rule-off-by-one", "leveldb/db_compaction.go", "\t\t\tcase lastSeq <= b.minSeq:", "\t\t\tcase lastSeq <= b.minSeq+1:", "C03"),
    ("C06-d-imax-is-first-key", "leveldb/table.go", "f = newTableFile(w.fd, int64(w.tw.BytesLen()), internalKey(w.first), internalKey(w.last))", "f = newTableFile(w.fd, int64(w.tw.BytesLen()), internalKey(w.first), internalKey(w.first))", "C06"),
    ("C06-b-cut-inside-a-user-key", "leveldb/db_compaction.go", "\t\t\t\tif b.tw != nil && (shouldStop || b.needFlush()) {\n\t\t\t\t\tif err := b.flush(); err != nil {\n\t\t\t\t\t\treturn err\n\t\t\t\t\t}", "\t\t\t\tif false {\n\t\t\t\t\tif err := b.flush(); err != nil {\n\t\t\t\t\t\treturn err\n\t\t\t\t\t}", "C06"),
    ("C06-e-size-recorded-wrong", "leveldb/table.go", "f = newTableFile(w.fd, int64(w.tw.BytesLen()), internalKey(w.first), internalKey(w.last))", "f = newTableFile(w.fd, int64(w.tw.BytesLen())+1, internalKey(w.first), internalKey(w.last))", "C06"),
    ("C07-c-discard-keeps-tables", "leveldb/db_transaction.go", "\t\ttr.db.s.tops.remove(t.fd)\n", "\t\t_ = t\n", "C07 C11"),
    ("C07-e-janitor-keeps-all-tables", "leveldb/db_util.go", "\t\t\t_, keep = tmap[fd.Num]\n\t\t\tif keep {", "\t\t\t_, keep = tmap[fd.Num]\n\t\t\tkeep = keep || fd.Num%3 == 0\n\t\t\tif _, live := tmap[fd.Num]; live {", "C07"),
    ("C07-a-release-before-ref", "leveldb/session_util.go", "\tv.incref()\n\tif s.stVersion != nil {", "\tif s.stVersion != nil {", "C07"),
    ("C08-c-install-version-on-failed-append", "leveldb/session.go", "\tif err == nil {\n\t\ts.setVersion(r, nv)\n\t}", "\tif err == nil || s.manifest != nil {\n\t\ts.setVersion(r, nv)\n\t}", "C08"),
    ("C08-d-skip-block-checksum", "leveldb/table/reader.go", "\tif verifyChecksum {", "\tif false {", "C08 C13"),
    ("C08-b-apply-before-journal", "leveldb/db_write.go", "\t// Write journal.\n\tif err := db.writeJournal(batches, seq, sync); err != nil {", "\tfor _, batch := range batches {\n\t\t_ = batch.putMem(seq, mdb.DB)\n\t}\n\t// Write journal.\n\tif err := db.writeJournal(batches, seq, sync); err != nil {", "C08"),
    ("C09-b-error-path-keeps-lock", "leveldb/db_write.go", "\tif err != nil {\n\t\tdb.unlockWrite(false, 0, err)\n\t\treturn err\n\t}\n\tdefer mdb.decref()", "\tif err != nil {\n\t\treturn err\n\t}\n\tdefer mdb.decref()", "C09"),
    ("C09-d-pending-waiter-not-acked-on-exit", "leveldb/db_compaction.go", "\t\tif x != nil {\n\t\t\tx.ack(ErrClosed)\n\t\t}\n\t\tdb.closeW.Done()\n\t}()\n\n\tfor {\n\t\tselect {\n\t\tcase x = <-db.mcompCmdC:", "\t\tdb.closeW.Done()\n\t}()\n\n\tfor {\n\t\tselect {\n\t\tcase x = <-db.mcompCmdC:", "C09"),
    ("C09-c-wait-ignores-close", "leveldb/db_compaction.go", "\t// Wait cmd.\n\tselect {\n\tcase err = <-ch:\n\tcase err = <-db.compErrC:\n\tcase <-db.closeC:\n\t\treturn ErrClosed\n\t}\n\treturn err\n}\n\n// Send range compaction request.", "\t// Wait cmd.\n\tselect {\n\tcase err = <-ch:\n\tcase err = <-db.compErrC:\n\t}\n\treturn err\n}\n\n// Send range compaction request.", "C09 C18"),
    ("C10-a-one-ack-missing", "leveldb/db_write.go", "\tfor i := 0; i < merged; i++ {", "\tfor i := 0; i < merged-1; i++ {", "C10"),
    ("C10-b-overflow-also-releases", "leveldb/db_write.go", "\t\tverifEvent(10, 0, 0, 0)\n\t\tdb.writeMergedC <- false\n", "\t\tverifEvent(10, 0, 0, 0)\n\t\tdb.writeMergedC <- false\n\t\t<-db.writeLockC\n", "C10"),
    ("C10-c-ack-nil-instead-of-group-error", "leveldb/db_write.go", "\t\tdb.writeAckC <- err\n", "\t\tdb.writeAckC <- nil\n", "C10"),
    ("C10-d-leader-says-merged-to-overflow", "leveldb/db_write.go", "\t\t\t\t\t\toverflow = true\n\t\t\t\t\t\tbreak merge\n\t\t\t\t\t}\n\t\t\t\t\tbatches = append(batches, incoming.batch)", "\t\t\t\t\t\tdb.writeMergedC <- true\n\t\t\t\t\t\tmerged++\n\t\t\t\t\t\tbreak merge\n\t\t\t\t\t}\n\t\t\t\t\tbatches = append(batches, incoming.batch)", "C10"),
    ("C11-a-seq-published-before-commit", "leveldb/db_transaction.go", "\t\t\tcerr = tr.db.s.commit(&tr.rec, false)", "\t\t\ttr.db.setSeq(tr.seq)\n\t\t\tcerr = tr.db.s.commit(&tr.rec, false)", "C11 C05"),
    ("C11-d-transaction-without-write-lock", "leveldb/db_transaction.go", "\ttr.mem.decref()\n\t<-tr.db.writeLockC\n}", "\ttr.mem.decref()\n}", "C11 C09"),
    ("C18-b-readonly-open-cleans-files", "leveldb/db.go", "\tif readOnly {\n\t\t// Recover journals (read-only mode).\n\t\tif err := db.recoverJournalRO(); err != nil {\n\t\t\treturn nil, err\n\t\t}", "\tif readOnly {\n\t\t// Recover journals (read-only mode).\n\t\tif err := db.recoverJournalRO(); err != nil {\n\t\t\treturn nil, err\n\t\t}\n\t\t_ = db.checkAndCleanFiles()", "C18"),
    ("C18-c-has-without-closed-check", "leveldb/db.go", "func (db *DB) Has(key []byte, ro *opt.ReadOptions) (ret bool, err error) {\n\terr = db.ok()\n\tif err != nil {\n\t\treturn\n\t}", "func (db *DB) Has(key []byte, ro *opt.ReadOptions) (ret bool, err error) {", "C18"),
    ("C18-d-ro-skips-last-journal", "leveldb/db.go", "\t\tfor _, fd := range fds {\n\t\t\tdb.logf(\"journal@recovery recovering @%d\", fd.Num)\n\n\t\t\tfr, err := db.s.stor.Open(fd)\n\t\t\tif err != nil {\n\t\t\t\treturn err\n\t\t\t}\n\n\t\t\t// Create or reset journal reader instance.\n\t\t\tif jr == nil {\n\t\t\t\tjr = journal.NewReader(fr, dropper{db.s, fd}, strict, checksum)\n\t\t\t} else {\n\t\t\t\t// Ignore the error here, as", "\t\tfor fi, fd := range fds {\n\t\t\tif fi > 0 && fi == len(fds)-1 {\n\t\t\t\tbreak\n\t\t\t}\n\t\t\tdb.logf(\"journal@recovery recovering @%d\", fd.Num)\n\n\t\t\tfr, err := db.s.stor.Open(fd)\n\t\t\tif err != nil {\n\t\t\t\treturn err\n\t\t\t}\n\n\t\t\t// Create or reset journal reader instance.\n\t\t\tif jr == nil {\n\t\t\t\tjr = journal.NewReader(fr, dropper{db.s, fd}, strict, checksum)\n\t\t\t} else {\n\t\t\t\t// Ignore the error here, as", "C18"),
    ("C18-a-lock-never-released", "leveldb/session.go", "func (s *session) release() {\n\ts.storLock.Unlock()\n}", "func (s *session) release() {\n}", "C18"),
    ("C19-a-seq-zero", "leveldb/db.go", "\trec.setSeqNum(maxSeq)", "\trec.setSeqNum(0)", "C19"),
    ("C19-c-journals-skipped-after-recover", "leveldb/db.go", "\t// Set sequence number.\n\trec.setSeqNum(maxSeq)", "\t// Set sequence number.\n\trec.setJournalNum(1 << 40)\n\trec.setSeqNum(maxSeq)", "C19"),
    ("C19-d-rebuild-keeps-nothing-after-damage", "leveldb/db.go", "\t\terr = iter.Error()\n\t\tif err != nil && !errors.IsCorrupted(err) {\n\t\t\treturn\n\t\t}\n\t\terr = tw.Close()", "\t\terr = tw.Close()", "C19"),
    ("C20-b-get-returns-memdb-slice", "leveldb/db.go", "\t\tif ok, mv, me := memGet(m.DB, ikey, db.s.icmp); ok {\n\t\t\treturn append([]byte(nil), mv...), me\n\t\t}\n\t}\n\n\tverifYield(2)\n\tv := db.s.version()\n\tvalue, cSched, err := v.get(auxt, ikey, ro, false)", "\t\tif ok, mv, me := memGet(m.DB, ikey, db.s.icmp); ok {\n\t\t\treturn mv, me\n\t\t}\n\t}\n\n\tverifYield(2)\n\tv := db.s.version()\n\tvalue, cSched, err := v.get(auxt, ikey, ro, false)", "C20"),
    ("C20-d-iterator-value-aliased", "leveldb/db_iter.go", "\t\t\t\t\t\ti.value = append(i.value[:0], i.iter.Value()...)\n\t\t\t\t\t\ti.dir = dirForward\n\t\t\t\t\t\treturn true", "\t\t\t\t\t\ti.value = i.iter.Value()\n\t\t\t\t\t\ti.dir = dirForward\n\t\t\t\t\t\treturn true", "C20"),
]


def main():
    want = sys.argv[1:]
    res_path = os.path.join(VERIF, "mutants_results.json")
    results = {}
    if os.path.exists(res_path):
        results = json.load(open(res_path))
    for name, f, old, new, checks in MUTANTS:
        if want and not any(name.startswith(w) for w in want):
            continue
        d = "/tmp/mutant.%d" % os.getpid()
        shutil.rmtree(d, ignore_errors=True)
        subprocess.run(["rsync", "-a", "--exclude", ".git", "/repo/", d + "/"], check=True)
        p = os.path.join(d, f)
        s = open(p).read()
        if s.count(old) < 1:
            results[name] = {"status": "pattern-not-found"}
            print(name, "PATTERN NOT FOUND", flush=True)
            shutil.rmtree(d, ignore_errors=True)
            continue
        open(p, "w").write(s.replace(old, new, 1))
        b = subprocess.run(["go", "build", "./..."], cwd=d, env=ENV, stdout=subprocess.PIPE, stderr=subprocess.STDOUT, text=True)
        if b.returncode != 0:
            results[name] = {"status": "does-not-compile", "output": b.stdout[-400:]}
            print(name, "DOES NOT COMPILE", b.stdout[-300:], flush=True)
            shutil.rmtree(d, ignore_errors=True)
            continue
        r = {"status": "ran", "file": f, "checks": {}}
        for c in checks.split():
            t0 = time.time()
            env = dict(ENV, VERIF_REPO=d, VERIF_JOBS=os.environ.get("VERIF_JOBS", "8"))
            try:
                pr = subprocess.run(["python3", os.path.join(VERIF, "tools", "check.py"), c, "quick"], env=env, cwd=VERIF,
                                    stdout=subprocess.PIPE, stderr=subprocess.STDOUT, text=True, timeout=2400)
                out = pr.stdout
                rc = pr.returncode
            except subprocess.TimeoutExpired:
                out, rc = "TIMEOUT", 124
            caught = "VIOLATION property=" in out
            sigs = [l[len("violation: "):][:160] for l in out.splitlines() if l.startswith("violation: ")][:3]
            r["checks"][c] = {"caught": caught, "exit": rc, "wall_s": round(time.time() - t0, 1), "first_violations": sigs}
            print(name, c, "CAUGHT" if caught else "missed(rc=%d)" % rc, sigs[:1], flush=True)
        results[name] = r
        shutil.rmtree(d, ignore_errors=True)
        json.dump(results, open(res_path, "w"), indent=1)


if __name__ == "__main__":
    main()
