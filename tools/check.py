#!/usr/bin/env python3
"""Orchestrator: python3 tools/check.py <ID> quick|thorough [--replay PATH]

Builds the property's worker from the current tree of ${VERIF_REPO:-/repo} (build tag
`verif`, optionally -race), runs its shards as child processes under a watchdog,
aggregates what the monitors observed, applies known_findings.json, writes
evidence/<ID>.json and prints KNOWN-FINDING / VIOLATION lines.

exit 0: property held on everything explored (only listed known findings seen)
exit 1: at least one violation whose signature is not a listed open finding
exit 2: check broken or inconclusive (build failure, harness crash, coverage floor)
"""
import fnmatch
import json
import os
import re
import shutil
import subprocess
import sys
import time
from concurrent.futures import ThreadPoolExecutor

VERIF = os.path.dirname(os.path.dirname(os.path.abspath(__file__)))
HARNESS = os.path.join(VERIF, "harness")
BUILD = os.path.join(VERIF, ".build")
sys.path.insert(0, os.path.join(VERIF, "tools"))
from props import PROPS  # noqa: E402

GOENV = {
    "GOFLAGS": "-mod=mod", "GOPROXY": "off", "GOSUMDB": "off", "GOTOOLCHAIN": "local",
    "GONOSUMDB": "*", "GONOSUMCHECK": "1",
}


def log(*a):
    print(*a, file=sys.stderr, flush=True)


def goenv():
    e = dict(os.environ)
    e.update(GOENV)
    e.setdefault("GOCACHE", os.path.join(os.path.expanduser("~"), ".cache", "go-build"))
    return e


def repo_path():
    return os.environ.get("VERIF_REPO", "/repo")


def write_modfile():
    src = open(os.path.join(HARNESS, "go.mod")).read()
    out = re.sub(r"replace github.com/syndtr/goleveldb => \S+",
                 "replace github.com/syndtr/goleveldb => " + repo_path(), src)
    tag = "verif" if repo_path() == "/repo" else "alt%d" % os.getpid()
    mod = os.path.join(HARNESS, "go.%s.mod" % tag)
    with open(mod, "w") as f:
        f.write(out)
    shutil.copyfile(os.path.join(HARNESS, "go.sum"), mod[:-4] + ".sum")
    return mod


def build(worker, race, modfile):
    os.makedirs(BUILD, exist_ok=True)
    suffix = ".race" if race else ""
    if repo_path() != "/repo":
        suffix += ".alt%d" % os.getpid()
    out = os.path.join(BUILD, worker + suffix)
    cmd = ["go", "build", "-tags", "verif", "-modfile=" + modfile]
    if race:
        cmd.append("-race")
    cmd += ["-o", out, "./cmd/" + worker]
    t0 = time.time()
    p = subprocess.run(cmd, cwd=HARNESS, env=goenv(), stdout=subprocess.PIPE, stderr=subprocess.STDOUT, text=True)
    if p.returncode != 0:
        log("BUILD FAILED (%s):\n%s" % (" ".join(cmd), p.stdout[-4000:]))
        return None
    log("built %s in %.1fs" % (os.path.basename(out), time.time() - t0))
    return out


GOLEVELDB = "github.com/syndtr/goleveldb/"


def frames(block):
    """function names (no line numbers) of a stack block, outermost last"""
    out = []
    for l in block.splitlines():
        l = l.rstrip()
        if not l or l.startswith("\t") or l.startswith(" " * 6):
            continue
        m = re.match(r"^\s*([\w./*()\[\]·-]+)\(", l.strip())
        if m:
            out.append(m.group(1))
    return out


def crash_signature(text):
    kind = "crash"
    m = re.search(r"^(panic: .*|fatal error: .*)$", text, re.M)
    head = m.group(1) if m else ""
    if head.startswith("fatal error: all goroutines are asleep"):
        kind = "deadlock"
    site = "unknown"
    # first goleveldb frame after the panic line
    tail = text[m.end():] if m else text
    for l in tail.splitlines():
        if l.startswith(GOLEVELDB) or (GOLEVELDB in l and not l.startswith("\t")):
            f = l.strip()
            f = f[:f.rfind("(")] if "(" in f else f
            site = f.replace(GOLEVELDB, "")
            break
    return "%s:%s" % (kind, site), head


def parse_race_logs(paths):
    """returns list of (sig, text, in_goleveldb)"""
    reports = []
    for p in paths:
        try:
            txt = open(p, errors="replace").read()
        except OSError:
            continue
        for blk in txt.split("==================")[0:]:
            if "WARNING: DATA RACE" not in blk:
                continue
            # split the two access stacks
            parts = re.split(r"\n(?=(?:Previous |)(?:read|write|atomic read|atomic write) (?:at|of) )", blk)
            stacks = []
            for part in re.split(r"\n\n", blk):
                if re.match(r"^(WARNING: DATA RACE\n)?(Previous )?(Read|Write|Atomic read|Atomic write|read|write) ", part.strip(), re.I) or \
                        re.match(r"^(Previous )?(read|write)", part.strip(), re.I):
                    stacks.append(part)
            ents = []
            inner = []
            ingl = 0
            for st in stacks[:2]:
                fr = [f for f in frames(st)]
                gl = [f for f in fr if f.startswith(GOLEVELDB)]
                if gl:
                    ingl += 1
                    # innermost goleveldb frame (the racing access) < outermost goleveldb entry point
                    ents.append(gl[0].replace(GOLEVELDB, "") + "<" + gl[-1].replace(GOLEVELDB, ""))
                    inner.append(gl[0])
                else:
                    ents.append((fr[0] if fr else "?"))
                    inner.append(fr[0] if fr else "?")
            ents.sort()
            sig = "race:" + "|".join(ents)
            reports.append((sig, blk.strip(), ingl, inner))
    return reports


def load_known(pid):
    path = os.path.join(VERIF, "known_findings.json")
    if not os.path.exists(path):
        return []
    try:
        data = json.load(open(path))
    except Exception as e:  # a damaged file must not hide violations
        log("known_findings.json unreadable: %s" % e)
        return []
    return [k for k in data if k.get("property") == pid and k.get("status") == "open"]


def run_child(args):
    cmd, env, outp, errp, tmo = args
    t0 = time.time()
    with open(outp, "w") as fo, open(errp, "w") as fe:
        p = subprocess.run(["timeout", "-s", "QUIT", "-k", "20", str(tmo)] + cmd, stdout=fo, stderr=fe, env=env, cwd=HARNESS)
    return p.returncode, time.time() - t0


def main():
    if len(sys.argv) < 3:
        print(__doc__)
        return 2
    pid = sys.argv[1]
    tier = sys.argv[2]
    replay = None
    if tier == "--replay":
        replay = sys.argv[3]
        tier = "quick"
    elif len(sys.argv) >= 5 and sys.argv[3] == "--replay":
        replay = sys.argv[4]
    if pid not in PROPS:
        log("unknown property %s" % pid)
        return 2
    cfg = PROPS[pid]
    seed = int(os.environ.get("VERIF_SEED", "1") or "1")
    tier = os.environ.get("VERIF_TIER_OVERRIDE", tier)
    t0 = time.time()
    jobs = int(os.environ.get("VERIF_JOBS", "16"))
    modfile = write_modfile()
    rundir = os.path.join(BUILD, "run", pid + (".alt%d" % os.getpid() if repo_path() != "/repo" else ""))
    shutil.rmtree(rundir, ignore_errors=True)
    os.makedirs(rundir, exist_ok=True)
    replaydir = os.path.join(VERIF, "replays", pid)
    if repo_path() != "/repo":
        replaydir = os.path.join(rundir, "replays")

    if replay:
        w = json.load(open(replay))
        seed = int(w.get("seed", seed))
        tier = w.get("tier", tier)

    violations = []   # (sig, msg, replay)
    broken = []
    children = []
    agg = {"counters": {}, "maxes": {}, "dsets": {}, "evaluations": 0, "distinct_nontrivial": 0,
           "samples": [], "inconclusive": 0}
    passes_run = []
    outside = []

    tasks = []
    for ps in cfg["passes"]:
        if ps.get("tier") and ps["tier"] != tier:
            continue
        race = bool(ps.get("race"))
        binp = build(cfg["worker"], race, modfile)
        if binp is None:
            broken.append("build failed for pass %s" % ps["name"])
            continue
        nshards = ps.get("shards", 16)
        if replay:
            nshards = 1
        tmo = ps.get("timeout", {}).get(tier, 900)
        for i in range(nshards):
            base = os.path.join(rundir, "%s.%d" % (ps["name"], i))
            cmd = [binp, "-tier", tier, "-seed", str(seed), "-shard", str(i), "-nshards", str(nshards),
                   "-replaydir", replaydir, "-casefile", base + ".case", "-extra", ps.get("extra", "")]
            if race:
                cmd.append("-race")
            if replay:
                w = json.load(open(replay))
                cmd += ["-only", str(w.get("case", -1))]
                if w.get("extra"):
                    cmd[cmd.index("-extra") + 1] = w["extra"]
            env = dict(os.environ)
            env["GOTRACEBACK"] = "all"
            if ps.get("gomaxprocs"):
                env["GOMAXPROCS"] = str(ps["gomaxprocs"])
            if race:
                env["GORACE"] = "halt_on_error=0 log_path=%s.racelog" % base
            tasks.append((ps, i, base, (cmd, env, base + ".out", base + ".err", tmo)))
        passes_run.append(ps["name"])
        if replay:
            break

    with ThreadPoolExecutor(max_workers=jobs) as ex:
        results = list(ex.map(lambda t: run_child(t[3]), tasks))

    for (ps, i, base, _), (rc, dt) in zip(tasks, results):
        done = False
        try:
            lines = open(base + ".out", errors="replace").read().splitlines()
        except OSError:
            lines = []
        for l in lines:
            if not l.startswith("{"):
                continue
            try:
                j = json.loads(l)
            except Exception:
                continue
            t = j.get("t")
            if t == "violation":
                violations.append((j.get("sig", "?"), j.get("msg", ""), j.get("replay", "")))
            elif t == "stats":
                for k, v in j.get("counters", {}).items():
                    agg["counters"][k] = agg["counters"].get(k, 0) + v
                for k, v in j.get("maxes", {}).items():
                    agg["maxes"][k] = max(agg["maxes"].get(k, v), v)
                for k, v in j.get("dsets", {}).items():
                    agg["dsets"].setdefault(k, set()).update(v)
                agg["evaluations"] += j.get("evaluations", 0)
                agg["distinct_nontrivial"] += j.get("distinct_nontrivial", 0)
                agg["inconclusive"] += j.get("inconclusive", 0)
                for s in (j.get("samples") or []):
                    if len(agg["samples"]) < 4:
                        agg["samples"].append(s)
            elif t == "done":
                done = True
        children.append({"pass": ps["name"], "shard": i, "rc": rc, "wall_s": round(dt, 1), "done": done})
        if not done:
            err = ""
            try:
                err = open(base + ".err", errors="replace").read()
            except OSError:
                pass
            case = ""
            try:
                cl = open(base + ".case").read().splitlines()
                case = cl[-1] if cl else ""
            except OSError:
                pass
            if rc == 124 or rc == 137:
                # watchdog of the orchestrator: never a verdict by itself
                os.makedirs(replaydir, exist_ok=True)
                dump = os.path.join(replaydir, "timeout-%s-s%d-%d.log" % (ps["name"], seed, i))
                with open(dump, "w") as f:
                    f.write("last case: %s\n" % case)
                    f.write(err[-400000:])
                if cfg.get("timeout_is_violation"):
                    sig, head = "hang:" + hang_site(err), "child exceeded its watchdog"
                    violations.append((sig, "%s (%s; last case %s)" % (head, ps["name"], case), dump))
                else:
                    broken.append("child %s.%d exceeded the %ss watchdog (last case: %s; dump %s)" % (ps["name"], i, tasks[0][3][4], case, dump))
            else:
                sig, head = crash_signature(err)
                os.makedirs(replaydir, exist_ok=True)
                dump = os.path.join(replaydir, "crash-%s-s%d-%d.log" % (ps["name"], seed, i))
                with open(dump, "w") as f:
                    f.write("last case: %s\nexit status: %s\n" % (case, rc))
                    f.write(err[-400000:])
                if "harness bug" in err or (GOLEVELDB not in err and "verif/" in err and "panic" in err) or not err.strip():
                    broken.append("child %s.%d died (rc=%s) outside goleveldb: %s (log %s)" % (ps["name"], i, rc, head, dump))
                else:
                    violations.append((sig, "process died: %s (last case %s)" % (head, case), dump))
        if ps.get("race"):
            logs = [os.path.join(rundir, f) for f in os.listdir(rundir) if f.startswith("%s.%d.racelog" % (ps["name"], i))]
            reps = parse_race_logs(logs)
            agg["counters"]["race_reports"] = agg["counters"].get("race_reports", 0) + len(reps)
            seen = set()
            for sig, text, ingl, inner in reps:
                if sig in seen:
                    continue
                seen.add(sig)
                os.makedirs(replaydir, exist_ok=True)
                rp = os.path.join(replaydir, "race-s%d-%d-%d.txt" % (seed, i, len(seen)))
                with open(rp, "w") as f:
                    f.write(text + "\n")
                rel = cfg.get("race_relevant")
                relevant = True
                if rel:
                    # relevance is judged on the two racing accesses (innermost frames), not on their callers
                    relevant = any(re.search(x, f) for x in rel for f in inner)
                if ingl >= 1 and relevant:
                    violations.append((sig, "data race reported by the race detector", rp))
                elif ingl >= 1:
                    # a race inside goleveldb on state that this property's mechanism does not cover:
                    # listed in the evidence, not a verdict on this property
                    agg["counters"]["race_reports_outside_property"] = agg["counters"].get("race_reports_outside_property", 0) + 1
                    outside.append(sig)
                else:
                    broken.append("race confined to the harness: %s (%s)" % (sig, rp))

    for k in list(agg["dsets"].keys()):
        agg["counters"][k + ".distinct"] = len(agg["dsets"][k])
    del agg["dsets"]

    # ---- known findings
    known = load_known(pid)
    unknown = []
    known_hits = {}
    for sig, msg, rp in violations:
        hit = None
        for k in known:
            if fnmatch.fnmatchcase(sig, k["signature"]):
                hit = k
                break
        if hit is not None:
            known_hits.setdefault(hit["signature"], [hit, 0, rp])
            known_hits[hit["signature"]][1] += 1
        else:
            unknown.append((sig, msg, rp))
    for sigk, (k, n, rp) in sorted(known_hits.items()):
        print("KNOWN-FINDING: property=%s %s [signature=%s reproduced=%d]" % (pid, k.get("what", ""), sigk, n), flush=True)
    for k in known:
        if k["signature"] not in known_hits:
            print("KNOWN-FINDING: property=%s %s [signature=%s reproduced=0 in this run]" % (pid, k.get("what", ""), k["signature"]), flush=True)

    # ---- floors
    floors_unmet = []
    if not replay:
        for name, mn in cfg.get("floors", {}).get(tier, cfg.get("floors", {}).get("any", {})).items():
            have = agg["counters"].get(name, agg["maxes"].get(name, agg.get(name, 0)))
            if have < mn:
                floors_unmet.append("%s=%s < %s" % (name, have, mn))
    # ---- evidence
    wall = time.time() - t0
    cov = {
        "evaluations": int(agg["evaluations"]),
        "distinct_nontrivial": int(agg["distinct_nontrivial"]),
        "rule": cfg["rule"],
        "samples": agg["samples"] if agg["samples"] else [],
        "observed": dict(sorted(agg["counters"].items())),
        "maxima": dict(sorted(agg["maxes"].items())),
        "inconclusive_items": int(agg["inconclusive"]),
        "passes": passes_run,
        "children": len(children),
        "children_not_finished": [c for c in children if not c["done"]],
        "known_findings_reproduced": {k: v[1] for k, v in known_hits.items()},
        "unlisted_violation_signatures": sorted(set(s for s, _, _ in unknown))[:50],
        "race_signatures_outside_property": sorted(set(outside))[:20],
        "repo": repo_path(),
    }
    ev = {
        "property_id": pid, "tier": tier, "seed": seed, "level": cfg["level"],
        "coverage": cov, "assumptions": cfg.get("assumptions", []),
        "wall_s": round(wall, 2), "violations": len(unknown),
    }
    if not replay and repo_path() == "/repo":
        os.makedirs(os.path.join(VERIF, "evidence"), exist_ok=True)
        tmp = os.path.join(VERIF, "evidence", pid + ".json.tmp")
        with open(tmp, "w") as f:
            json.dump(ev, f, indent=1, sort_keys=False)
            f.write("\n")
        os.replace(tmp, os.path.join(VERIF, "evidence", pid + ".json"))

    log("%s %s seed=%d: evaluations=%d distinct_nontrivial=%d violations(unlisted)=%d known=%d broken=%d wall=%.1fs" % (
        pid, tier, seed, cov["evaluations"], cov["distinct_nontrivial"], len(unknown), len(known_hits), len(broken), wall))

    if repo_path() != "/repo":
        for f in [modfile, modfile[:-4] + ".sum"] + [os.path.join(BUILD, x) for x in os.listdir(BUILD) if x.endswith(".alt%d" % os.getpid())]:
            try:
                os.remove(f)
            except OSError:
                pass

    if unknown:
        seen = set()
        for sig, msg, rp in unknown:
            if sig in seen:
                continue
            seen.add(sig)
            log("violation: %s: %s" % (sig, msg[:600]))
            print("VIOLATION property=%s replay=%s" % (pid, rp or "(none)"), flush=True)
        return 1
    if broken:
        for b in broken:
            log("BROKEN: " + b)
        return 2
    if floors_unmet:
        log("INCONCLUSIVE: coverage floor not reached: " + "; ".join(floors_unmet))
        return 2
    if cov["evaluations"] < 1 or cov["distinct_nontrivial"] < 2:
        if not replay:
            log("INCONCLUSIVE: nothing non-trivial observed")
            return 2
    return 0


def hang_site(err):
    for l in err.splitlines():
        if l.startswith(GOLEVELDB + "leveldb.(*DB)."):
            f = l[:l.rfind("(")]
            return f.replace(GOLEVELDB, "")
    return "unknown"


if __name__ == "__main__":
    sys.exit(main())
