module verif

go 1.21

require (
	github.com/anishathalye/porcupine v1.3.0
	github.com/syndtr/goleveldb v0.0.0
)

require github.com/golang/snappy v0.0.4

replace github.com/syndtr/goleveldb => /repo
