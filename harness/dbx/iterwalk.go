package dbx

import (
	"bytes"
	"fmt"
	"math/rand"

	"github.com/syndtr/goleveldb/leveldb/comparer"
	"github.com/syndtr/goleveldb/leveldb/iterator"

	"verif/model"
)

// WalkStats counts what a walk exercised.
type WalkStats struct {
	Calls     map[string]int
	Reversals int
	OffEnds   int // times the cursor stepped off either end
	Returns   int // times it came back from an end
}

// WalkMismatch is a disagreement between an iterator and the cursor model.
type WalkMismatch struct {
	Step   int      `json:"step"`
	Call   string   `json:"call"`
	What   string   `json:"what"`
	Got    string   `json:"got"`
	Want   string   `json:"want"`
	Calls  []string `json:"calls"`
	ListN  int      `json:"list_len"`
}

func (m *WalkMismatch) Error() string {
	return fmt.Sprintf("iterator step %d (%s): %s: got %s want %s", m.Step, m.Call, m.What, m.Got, m.Want)
}

// Walk drives it and the cursor model over list with ncalls seeded movement calls
// and compares every observable after each call. seekKey supplies Seek targets.
func Walk(r *rand.Rand, it iterator.Iterator, list []model.KV, cmp comparer.Comparer, seekKey func() []byte, ncalls int, ws *WalkStats) *WalkMismatch {
	return WalkFrom(r, it, model.NewCursor(list, cmp), true, seekKey, ncalls, ws)
}

// WalkFrom continues a walk with an existing cursor (an iterator that is held across
// other activity); fresh says whether the iterator has not been moved yet.
func WalkFrom(r *rand.Rand, it iterator.Iterator, cur *model.Cursor, fresh bool, seekKey func() []byte, ncalls int, ws *WalkStats) *WalkMismatch {
	list := cur.L
	if ws.Calls == nil {
		ws.Calls = map[string]int{}
	}
	var calls []string
	lastDir := 0
	fail := func(step int, call, what, got, want string) *WalkMismatch {
		return &WalkMismatch{Step: step, Call: call, What: what, Got: got, Want: want, Calls: calls, ListN: len(list)}
	}
	// A fresh iterator is before the first element.
	if fresh && it.Valid() {
		return fail(0, "new", "fresh iterator reports Valid", "true", "false")
	}
	for s := 1; s <= ncalls; s++ {
		var got, want bool
		var call string
		wasValid := cur.Valid()
		x := r.Intn(100)
		// Bias towards reversals: after a Next often do Prev and vice versa.
		switch {
		case x < 30:
			call = "Next"
		case x < 60:
			call = "Prev"
		case x < 75:
			call = "Seek"
		case x < 82:
			call = "First"
		case x < 89:
			call = "Last"
		default:
			if lastDir > 0 {
				call = "Prev"
			} else {
				call = "Next"
			}
		}
		switch call {
		case "Next":
			got, want = it.Next(), cur.Next()
			if lastDir < 0 {
				ws.Reversals++
			}
			lastDir = 1
		case "Prev":
			got, want = it.Prev(), cur.Prev()
			if lastDir > 0 {
				ws.Reversals++
			}
			lastDir = -1
		case "First":
			got, want = it.First(), cur.First()
			lastDir = 1
		case "Last":
			got, want = it.Last(), cur.Last()
			lastDir = -1
		case "Seek":
			k := seekKey()
			call = fmt.Sprintf("Seek(%x)", k)
			kk := append([]byte(nil), k...)
			got, want = it.Seek(kk), cur.Seek(k)
			ws.Calls["Seek"]++
			lastDir = 1
		}
		if call[0] != 'S' || call == "Seek" {
			ws.Calls[call]++
		}
		calls = append(calls, call)
		if len(calls) > 60 {
			calls = calls[len(calls)-60:]
		}
		if wasValid && !cur.Valid() {
			ws.OffEnds++
		}
		if !wasValid && cur.Valid() && s > 1 {
			ws.Returns++
		}
		if err := it.Error(); err != nil {
			return fail(s, call, "iterator reports an error", err.Error(), "nil")
		}
		if got != want {
			return fail(s, call, "movement result", fmt.Sprint(got), fmt.Sprint(want))
		}
		if it.Valid() != cur.Valid() {
			return fail(s, call, "Valid()", fmt.Sprint(it.Valid()), fmt.Sprint(cur.Valid()))
		}
		if cur.Valid() {
			if !bytes.Equal(it.Key(), cur.Key()) {
				return fail(s, call, "Key()", hexs(it.Key()), hexs(cur.Key()))
			}
			if !bytes.Equal(it.Value(), cur.Value()) {
				return fail(s, call, "Value() of key "+hexs(cur.Key()), hexs(it.Value()), hexs(cur.Value()))
			}
		} else {
			if it.Key() != nil || it.Value() != nil {
				return fail(s, call, "Key()/Value() of an invalid iterator", hexs(it.Key())+"/"+hexs(it.Value()), "<nil>/<nil>")
			}
		}
	}
	return nil
}

// FullScan compares one complete forward and one complete backward pass.
func FullScan(it iterator.Iterator, list []model.KV) *WalkMismatch {
	i := 0
	for ok := it.First(); ok; ok = it.Next() {
		if i >= len(list) {
			return &WalkMismatch{Step: i, Call: "forward scan", What: "extra pair", Got: hexs(it.Key()), Want: "<end>", ListN: len(list)}
		}
		if !bytes.Equal(it.Key(), list[i].K) || !bytes.Equal(it.Value(), list[i].V) {
			return &WalkMismatch{Step: i, Call: "forward scan", What: "pair differs", Got: hexs(it.Key()) + "=" + hexs(it.Value()), Want: hexs(list[i].K) + "=" + hexs(list[i].V), ListN: len(list)}
		}
		i++
	}
	if err := it.Error(); err != nil {
		return &WalkMismatch{Step: i, Call: "forward scan", What: "iterator error", Got: err.Error(), Want: "nil", ListN: len(list)}
	}
	if i != len(list) {
		return &WalkMismatch{Step: i, Call: "forward scan", What: "scan ended early", Got: fmt.Sprint(i), Want: fmt.Sprint(len(list)), ListN: len(list)}
	}
	i = len(list) - 1
	for ok := it.Last(); ok; ok = it.Prev() {
		if i < 0 {
			return &WalkMismatch{Step: i, Call: "backward scan", What: "extra pair", Got: hexs(it.Key()), Want: "<start>", ListN: len(list)}
		}
		if !bytes.Equal(it.Key(), list[i].K) || !bytes.Equal(it.Value(), list[i].V) {
			return &WalkMismatch{Step: i, Call: "backward scan", What: "pair differs", Got: hexs(it.Key()) + "=" + hexs(it.Value()), Want: hexs(list[i].K) + "=" + hexs(list[i].V), ListN: len(list)}
		}
		i--
	}
	if err := it.Error(); err != nil {
		return &WalkMismatch{Step: i, Call: "backward scan", What: "iterator error", Got: err.Error(), Want: "nil", ListN: len(list)}
	}
	if i != -1 {
		return &WalkMismatch{Step: i, Call: "backward scan", What: "scan ended early", Got: fmt.Sprint(len(list) - 1 - i), Want: fmt.Sprint(len(list)), ListN: len(list)}
	}
	return nil
}
