// Package dbx drives a real leveldb.DB and the ordered-map model M side by side with
// seeded single-client programs. It is shared by the workers that need "a DB in some
// reachable physical state together with what it must contain".
package dbx

import (
	"bytes"
	"fmt"
	"math/rand"
	"strings"
	"sync/atomic"

	"github.com/syndtr/goleveldb/leveldb"
	"github.com/syndtr/goleveldb/leveldb/opt"
	"github.com/syndtr/goleveldb/leveldb/util"

	"verif/model"
	"verif/vstor"
)

// Mismatch describes a disagreement between the DB and the model.
type Mismatch struct {
	OpIndex int                    `json:"op_index"`
	What    string                 `json:"what"`
	Key     string                 `json:"key_hex"`
	Got     string                 `json:"got"`
	Want    string                 `json:"want"`
	Trace   []string               `json:"recent_ops"`
	Opts    map[string]interface{} `json:"options"`
	Log     []string               `json:"db_log_tail,omitempty"`
}

func (m *Mismatch) Error() string {
	return fmt.Sprintf("%s at op %d key=%s got=%s want=%s", m.What, m.OpIndex, m.Key, m.Got, m.Want)
}

// Runner holds a DB, its storage and the model.
type Runner struct {
	R      *rand.Rand
	Stor   *vstor.Stor
	DB     *leveldb.DB
	M      *model.Map
	Keys   *model.KeyGen
	OS     model.OptSet
	NOps   int
	Trace  []string // ring of recent ops
	Stats  map[string]int64
	Used   map[string]bool // keys ever written
	memAt  map[string]uint32
	WO     *opt.WriteOptions
	ReopenOpts func(o *opt.Options) *opt.Options // optional tweak at reopen
	AfterOp    func(r *Runner, kind string) error // optional per-op callback
	SyncPct    int
	NoReopen   bool
	NoCompact  bool
	flushes    uint32 // committed memdb flushes seen in the DB's log
	OnLogExtra func(line string)
	OnOpen     func(db *leveldb.DB) // called after every successful Open (including the first)
	OnClosing  func()               // called before every Close
}

// NewRunner opens a fresh DB on a new storage.
func NewRunner(r *rand.Rand, os model.OptSet, nkeys int, record bool) (*Runner, error) {
	return NewRunnerBig(r, os, nkeys, record, false)
}

// NewRunnerBig is NewRunner with, optionally, keys of 1.5-7.5 KiB (manifest and journal records then span
// 32 KiB journal blocks, index blocks hold few entries).
func NewRunnerBig(r *rand.Rand, os model.OptSet, nkeys int, record, bigKeys bool) (*Runner, error) {
	ru := &Runner{
		R: r, Stor: vstor.New(record), OS: os, M: model.NewMap(os.O.Comparer),
		Keys: model.NewKeyGen(r, nkeys), Stats: map[string]int64{}, Used: map[string]bool{},
		memAt: map[string]uint32{},
	}
	if bigKeys {
		ru.Keys.Inflate(r, 1500, 7500)
	}
	if _, ok := os.O.Comparer.(model.Canonicalizer); ok {
		ru.Keys.AddPadded(r)
	}
	ru.Stor.SetKeepLogs(true)
	ru.Stor.OnLog = func(line string) {
		if strings.HasPrefix(line, "memdb@flush committed") {
			atomic.AddUint32(&ru.flushes, 1)
		}
		if f := ru.OnLogExtra; f != nil {
			f(line)
		}
	}
	db, err := leveldb.Open(ru.Stor, os.Clone())
	if err != nil {
		return nil, err
	}
	ru.DB = db
	return ru, nil
}

// Announce calls OnOpen for the DB opened by NewRunner (set the callbacks first).
func (ru *Runner) Announce() {
	if ru.OnOpen != nil && ru.DB != nil {
		ru.OnOpen(ru.DB)
	}
}

func hexs(b []byte) string {
	if b == nil {
		return "<nil>"
	}
	if len(b) > 40 {
		return fmt.Sprintf("%x…(%d bytes)", b[:40], len(b))
	}
	return fmt.Sprintf("%x", b)
}

// Hex renders bytes for witnesses.
func Hex(b []byte) string { return hexs(b) }

func (ru *Runner) trace(format string, a ...interface{}) {
	s := fmt.Sprintf("%d: ", ru.NOps) + fmt.Sprintf(format, a...)
	ru.Trace = append(ru.Trace, s)
	if len(ru.Trace) > 40 {
		ru.Trace = ru.Trace[len(ru.Trace)-40:]
	}
}

func (ru *Runner) mismatch(what string, key, got, want []byte, goterr error) *Mismatch {
	g := hexs(got)
	if goterr != nil {
		g = "error: " + goterr.Error()
	}
	m := &Mismatch{OpIndex: ru.NOps, What: what, Key: hexs(key), Got: g, Want: hexs(want),
		Trace: append([]string(nil), ru.Trace...), Opts: ru.OS.Desc}
	logs := ru.Stor.Logs()
	if len(logs) > 60 {
		logs = logs[len(logs)-60:]
	}
	for _, l := range logs {
		m.Log = append(m.Log, l.Text)
	}
	return m
}

func (ru *Runner) memComp() uint32 {
	return atomic.LoadUint32(&ru.flushes)
}

func (ru *Runner) noteWrite(k []byte) {
	ru.Used[string(k)] = true
	ru.memAt[string(model.CanonKey(ru.OS.O.Comparer, k))] = ru.memComp()
}

// valueFor builds the unique value of write (op, sub).
func (ru *Runner) valueFor(sub int) []byte {
	o := ru.OS.O
	sz := model.ValueSize(ru.R, o.GetBlockSize(), o.GetWriteBuffer())
	return model.Value(0, uint32(ru.NOps), uint32(sub), sz)
}

// Put writes one pair to DB and model.
func (ru *Runner) Put(k, v []byte) error {
	ru.NOps++
	ru.trace("put %s len(v)=%d", hexs(k), len(v))
	kk := append([]byte(nil), k...)
	vv := append([]byte(nil), v...)
	if err := ru.DB.Put(kk, vv, ru.wo()); err != nil {
		return ru.mismatch("Put returned an error", k, nil, nil, err)
	}
	ru.M.Put(k, v)
	ru.noteWrite(k)
	ru.Stats["put"]++
	return ru.after("put")
}

func (ru *Runner) wo() *opt.WriteOptions {
	if ru.WO != nil {
		return ru.WO
	}
	if ru.SyncPct > 0 && ru.R.Intn(100) < ru.SyncPct {
		return &opt.WriteOptions{Sync: true}
	}
	return nil
}

func (ru *Runner) after(kind string) error {
	if ru.AfterOp != nil {
		return ru.AfterOp(ru, kind)
	}
	return nil
}

// Delete removes one key from DB and model.
func (ru *Runner) Delete(k []byte) error {
	ru.NOps++
	ru.trace("delete %s", hexs(k))
	if err := ru.DB.Delete(append([]byte(nil), k...), ru.wo()); err != nil {
		return ru.mismatch("Delete returned an error", k, nil, nil, err)
	}
	ru.M.Delete(k)
	ru.noteWrite(k)
	ru.Stats["delete"]++
	return ru.after("delete")
}

// BOp is one batch record.
type BOp struct {
	Del  bool
	K, V []byte
}

// Write applies a batch to DB and model.
func (ru *Runner) Write(ops []BOp) error {
	ru.NOps++
	b := new(leveldb.Batch)
	size := 0
	for _, o := range ops {
		if o.Del {
			b.Delete(o.K)
		} else {
			b.Put(o.K, o.V)
		}
		size += len(o.K) + len(o.V) + 8
	}
	ru.trace("write batch n=%d bytes~%d", len(ops), size)
	if err := ru.DB.Write(b, ru.wo()); err != nil {
		return ru.mismatch("Write returned an error", nil, nil, nil, err)
	}
	for _, o := range ops {
		if o.Del {
			ru.M.Delete(o.K)
		} else {
			ru.M.Put(o.K, o.V)
		}
		ru.noteWrite(o.K)
	}
	ru.Stats["batch"]++
	if size+8 > ru.OS.O.GetWriteBuffer() && !ru.OS.O.GetDisableLargeBatchTransaction() {
		ru.Stats["batch_via_transaction"]++
	}
	return ru.after("batch")
}

// CheckGet compares Get and Has of k with the model.
func (ru *Runner) CheckGet(k []byte) error {
	want, live := ru.M.Get(k)
	got, err := ru.DB.Get(append([]byte(nil), k...), nil)
	ru.Stats["get"]++
	if live {
		if err != nil || !bytes.Equal(got, want) {
			return ru.mismatch("Get differs from the model", k, got, want, err)
		}
	} else if err != leveldb.ErrNotFound {
		return ru.mismatch("Get of a dead key did not report not-found", k, got, nil, err)
	}
	has, herr := ru.DB.Has(append([]byte(nil), k...), nil)
	ru.Stats["has"]++
	if herr != nil || has != live {
		return ru.mismatch(fmt.Sprintf("Has=%v but model live=%v", has, live), k, nil, want, herr)
	}
	if at, ok := ru.memAt[string(model.CanonKey(ru.OS.O.Comparer, k))]; ok && ru.memComp() >= at+2 {
		ru.Stats["reads_from_tables"]++
	} else if ok {
		ru.Stats["reads_maybe_from_buffers"]++
	} else {
		ru.Stats["reads_never_written"]++
	}
	return nil
}

// Sweep checks every key ever written plus some probes.
func (ru *Runner) Sweep() error {
	ru.trace("sweep over %d keys", len(ru.Used))
	// deterministic order
	for _, k := range ru.Keys.Pool {
		if ru.Used[string(k)] {
			if err := ru.CheckGet(k); err != nil {
				return err
			}
		}
	}
	for i := 0; i < 20; i++ {
		if err := ru.CheckGet(ru.Keys.Probe(ru.R)); err != nil {
			return err
		}
	}
	ru.Stats["sweeps"]++
	return nil
}

// Reopen closes and reopens the DB on the same storage.
func (ru *Runner) Reopen() error {
	ru.NOps++
	ru.trace("close+open")
	if ru.OnClosing != nil {
		ru.OnClosing()
	}
	if err := ru.DB.Close(); err != nil {
		return ru.mismatch("Close returned an error", nil, nil, nil, err)
	}
	o := ru.OS.Clone()
	if ru.ReopenOpts != nil {
		o = ru.ReopenOpts(o)
	}
	db, err := leveldb.Open(ru.Stor, o)
	if err != nil {
		return ru.mismatch("Open after clean Close failed", nil, nil, nil, err)
	}
	ru.DB = db
	if ru.OnOpen != nil {
		ru.OnOpen(db)
	}
	ru.Stats["reopen"]++
	// After reopen every entry has been through recovery: treat as table-resident
	// only after further flushes, so reset the flush bookkeeping conservatively.
	for k := range ru.memAt {
		ru.memAt[k] = 0
	}
	return ru.after("reopen")
}

// CompactRange compacts a random sub-range or everything.
func (ru *Runner) CompactRange() error {
	ru.NOps++
	var rg util.Range
	if ru.R.Intn(3) != 0 {
		a, b := ru.Keys.Pick(ru.R), ru.Keys.Pick(ru.R)
		if ru.OS.O.Comparer.Compare(a, b) > 0 {
			a, b = b, a
		}
		rg = util.Range{Start: a, Limit: b}
		if ru.R.Intn(4) == 0 {
			rg.Start = nil
		}
		if ru.R.Intn(4) == 0 {
			rg.Limit = nil
		}
	}
	ru.trace("compactrange %s..%s", hexs(rg.Start), hexs(rg.Limit))
	if err := ru.DB.CompactRange(rg); err != nil {
		return ru.mismatch("CompactRange returned an error", nil, nil, nil, err)
	}
	ru.Stats["compactrange"]++
	return ru.after("compactrange")
}

// Step executes one random operation of the standard mix.
func (ru *Runner) Step() error {
	x := ru.R.Intn(1000)
	switch {
	case x < 350:
		return ru.Put(ru.Keys.Pick(ru.R), ru.valueFor(0))
	case x < 470:
		k := ru.Keys.Pick(ru.R)
		if ru.R.Intn(3) == 0 {
			// prefer deleting something live
			if ks := ru.M.Keys(); len(ks) > 0 {
				k = ks[ru.R.Intn(len(ks))]
			}
		}
		return ru.Delete(k)
	case x < 570:
		n := 1 + ru.R.Intn(40)
		ops := make([]BOp, 0, n)
		for i := 0; i < n; i++ {
			k := ru.Keys.Pick(ru.R)
			if ru.R.Intn(4) == 0 {
				ops = append(ops, BOp{Del: true, K: k})
			} else {
				ops = append(ops, BOp{K: k, V: ru.valueFor(i)})
			}
		}
		if ru.R.Intn(100) < 4 {
			// oversized: larger than the write buffer, taken through the transaction path
			wb := ru.OS.O.GetWriteBuffer()
			ops = append(ops, BOp{K: ru.Keys.Pick(ru.R), V: model.Value(0, uint32(ru.NOps+1), 999, wb+1+ru.R.Intn(512))})
			ru.NOps-- // Write() increments; keep the id stable
			ru.NOps++
		}
		return ru.Write(ops)
	case x < 850:
		if ru.R.Intn(5) == 0 {
			return ru.CheckGet(ru.Keys.Probe(ru.R))
		}
		return ru.CheckGet(ru.Keys.Pick(ru.R))
	case x < 990:
		// read something that was written long ago (likely in a table)
		return ru.CheckGet(ru.Keys.Pool[ru.R.Intn(1+len(ru.Keys.Pool)/4)])
	case x < 996:
		if ru.NoCompact {
			return nil
		}
		if err := ru.CompactRange(); err != nil {
			return err
		}
		return ru.Sweep()
	default:
		if ru.NoReopen {
			return nil
		}
		if err := ru.Reopen(); err != nil {
			return err
		}
		return ru.Sweep()
	}
}

// Close closes the DB.
func (ru *Runner) Close() error {
	if ru.DB == nil {
		return nil
	}
	if ru.OnClosing != nil {
		ru.OnClosing()
	}
	err := ru.DB.Close()
	ru.DB = nil
	return err
}

// CompCounts returns the DB's compaction counters.
func (ru *Runner) CompCounts() (mem, l0, nonl0, seek uint32) {
	var st leveldb.DBStats
	if err := ru.DB.Stats(&st); err != nil {
		return
	}
	return st.MemComp, st.Level0Comp, st.NonLevel0Comp, st.SeekComp
}

// MaxLevel returns the deepest populated level.
func (ru *Runner) MaxLevel() int {
	var st leveldb.DBStats
	if err := ru.DB.Stats(&st); err != nil {
		return -1
	}
	m := -1
	for l, n := range st.LevelTablesCounts {
		if n > 0 {
			m = l
		}
	}
	return m
}

// LogContains reports whether any DB log line contains sub.
func (ru *Runner) LogContains(sub string) int {
	n := 0
	for _, l := range ru.Stor.Logs() {
		if strings.Contains(l.Text, sub) {
			n++
		}
	}
	return n
}
