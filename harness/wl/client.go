// Package wl is a recorded client: it issues Put/Delete/batch/transaction operations
// against a DB, records each as a hist.Batch with its fate as reported by the API
// (nil => known present, error => unknown), and maintains per-key possible-value sets
// so that reads can be judged while some writes have an unknown fate.
package wl

import (
	"bytes"
	"fmt"
	"math/rand"

	"github.com/syndtr/goleveldb/leveldb"
	"github.com/syndtr/goleveldb/leveldb/opt"

	"verif/hist"
	"verif/model"
	"verif/vstor"
)

type pv struct {
	del bool
	v   []byte
	by  int
}

// Client is a single recorded client.
type Client struct {
	DB    *leveldb.DB
	Stor  *vstor.Stor
	H     *hist.History
	R     *rand.Rand
	Keys  *model.KeyGen
	O     *opt.Options
	ID    uint32
	opn   uint32
	poss  map[string][]pv
	Stats map[string]int64
	// TxPct etc. tune the mix (percentages of write operations).
	SyncPct   int
	NoTx      bool
	LastKinds []string
	// TxProblem is the first read inside a transaction that did not return the transaction's own latest write.
	TxProblem *ReadProblem
}

// NewClient creates a client over db.
func NewClient(db *leveldb.DB, st *vstor.Stor, r *rand.Rand, keys *model.KeyGen, o *opt.Options, id uint32) *Client {
	return &Client{DB: db, Stor: st, H: &hist.History{}, R: r, Keys: keys, O: o, ID: id, poss: map[string][]pv{}, Stats: map[string]int64{}, SyncPct: 20}
}

func (c *Client) val(sub int) []byte {
	c.opn++
	return model.Value(c.ID, c.opn, uint32(sub), model.ValueSize(c.R, c.O.GetBlockSize(), c.O.GetWriteBuffer()))
}

func (c *Client) marker() []byte {
	c.opn++
	return []byte(fmt.Sprintf("m/%02d/%06d", c.ID, c.opn))
}

// record applies the outcome of a batch to the possible-value sets.
func (c *Client) record(b *hist.Batch, err error) {
	for _, o := range b.Ops {
		nv := pv{del: o.Del, v: o.V, by: b.ID}
		if err == nil && !b.Discard {
			c.poss[string(o.K)] = []pv{nv}
		} else if err != nil {
			// fate unknown: the batch may or may not have been applied
			cur, ok := c.poss[string(o.K)]
			if !ok {
				cur = []pv{{del: true, by: -1}}
			}
			c.poss[string(o.K)] = append(cur, nv)
		}
	}
}

func (c *Client) issue(b *hist.Batch, f func() error) error {
	b.Client = int(c.ID)
	b.Start = c.Stor.OpIndex()
	b.Ack = -1
	c.H.Add(b)
	err := f()
	if err != nil {
		b.Failed = true
		c.Stats["writes_failed"]++
		c.Stats["writes_failed:"+b.Kind]++
	} else {
		b.Ack = c.Stor.OpIndex()
		c.Stats["writes_ok"]++
	}
	c.record(b, err)
	c.LastKinds = append(c.LastKinds, fmt.Sprintf("%s:%v", b.Kind, err))
	if len(c.LastKinds) > 30 {
		c.LastKinds = c.LastKinds[len(c.LastKinds)-30:]
	}
	return err
}

// Write issues one random write operation (put / delete / batch / oversized batch /
// transaction). The returned error is the API's (already recorded).
func (c *Client) Write() error {
	r := c.R
	sync := r.Intn(100) < c.SyncPct
	wo := &opt.WriteOptions{Sync: sync}
	db := c.DB
	switch x := r.Intn(100); {
	case x < 50:
		k, v := c.Keys.Pick(r), c.val(0)
		return c.issue(&hist.Batch{Kind: "put", Sync: sync, Ops: []hist.WOp{{K: k, V: v}}}, func() error { return db.Put(k, v, wo) })
	case x < 63:
		k := c.Keys.Pick(r)
		return c.issue(&hist.Batch{Kind: "delete", Sync: sync, Ops: []hist.WOp{{Del: true, K: k}}}, func() error { return db.Delete(k, wo) })
	case x < 85 || c.NoTx:
		nb := 2 + r.Intn(12)
		big := r.Intn(8) == 0
		b := new(leveldb.Batch)
		m := c.marker()
		hb := &hist.Batch{Kind: "batch", Sync: sync, Marker: m}
		b.Put(m, []byte("1"))
		hb.Ops = append(hb.Ops, hist.WOp{K: m, V: []byte("1")})
		for j := 0; j < nb; j++ {
			k := c.Keys.Pick(r)
			if r.Intn(4) == 0 {
				b.Delete(k)
				hb.Ops = append(hb.Ops, hist.WOp{Del: true, K: k})
			} else {
				v := c.val(j)
				if big && j == 0 {
					v = model.Value(c.ID, c.opn, 77, c.O.GetWriteBuffer()+r.Intn(2048))
				}
				b.Put(k, v)
				hb.Ops = append(hb.Ops, hist.WOp{K: k, V: v})
			}
		}
		if big {
			hb.Kind = "oversized-batch"
		}
		return c.issue(hb, func() error { return db.Write(b, wo) })
	default:
		m := c.marker()
		hb := &hist.Batch{Kind: "transaction", Sync: true, Marker: m}
		return c.issue(hb, func() error {
			tr, err := db.OpenTransaction()
			if err != nil {
				return err
			}
			put := func(k, v []byte, del bool) error {
				var err error
				if del {
					err = tr.Delete(k, nil)
				} else {
					err = tr.Put(k, v, nil)
				}
				if err == nil {
					hb.Ops = append(hb.Ops, hist.WOp{Del: del, K: k, V: v})
				}
				return err
			}
			if err := put(m, []byte("1"), false); err != nil {
				tr.Discard()
				hb.Discard = true
				return err
			}
			nb := 1 + r.Intn(60)
			for j := 0; j < nb; j++ {
				k := c.Keys.Pick(r)
				var err error
				if r.Intn(5) == 0 {
					err = put(k, nil, true)
				} else {
					err = put(k, c.val(j), false)
				}
				if err != nil {
					// a failed write inside the transaction: give the transaction up
					tr.Discard()
					hb.Discard = true
					hb.Kind = "transaction(discarded after write error)"
					return err
				}
			}
			// read some of the transaction's own writes back through the transaction (this also pulls blocks of
			// the tables the transaction has flushed so far into the block cache)
			for j := r.Intn(4); j > 0 && len(hb.Ops) > 1; j-- {
				o := hb.Ops[1+r.Intn(len(hb.Ops)-1)]
				last := o
				for _, x := range hb.Ops {
					if bytes.Equal(x.K, o.K) {
						last = x
					}
				}
				got, gerr := tr.Get(last.K, nil)
				if gerr != nil && gerr != leveldb.ErrNotFound {
					c.Stats["reads_failed_inside_transactions"]++
					continue
				}
				c.Stats["reads_ok_inside_transactions"]++
				if ok := gerr == nil; ok == last.Del || ok && !bytes.Equal(got, last.V) {
					if c.TxProblem == nil {
						rp := &ReadProblem{Key: fmt.Sprintf("%.80x", last.K), Got: "absent", Want: []string{"absent (deleted earlier in this transaction)"}}
						if ok {
							rp.Got = short(got)
						}
						if !last.Del {
							rp.Want = []string{short(last.V) + " (written earlier in this transaction)"}
						}
						c.TxProblem = rp
					}
				}
			}
			if r.Intn(5) == 0 {
				tr.Discard()
				hb.Discard = true
				hb.Kind = "transaction(discarded)"
				return nil
			}
			err = tr.Commit()
			for retry := 0; err != nil && retry < 2 && r.Intn(2) == 0; retry++ {
				c.Stats["commit_retries"]++
				err = tr.Commit()
			}
			if err != nil {
				// Commit failed: "it can then either be retried or discarded". We discard;
				// from now on nothing of this transaction may ever become visible.
				tr.Discard()
				hb.Discard = true
				hb.Kind = "transaction(commit failed, discarded)"
				c.Stats["commit_failed_then_discarded"]++
			}
			return err
		})
	}
}

// ReadProblem describes a successful read whose value cannot be explained.
type ReadProblem struct {
	Key  string   `json:"key_hex"`
	Got  string   `json:"got"`
	Want []string `json:"explainable"`
}

// Read performs one Get (+Has) of a random key; a successful answer must be in the
// key's possible set. Errors carry no information.
func (c *Client) Read() *ReadProblem {
	k := c.Keys.Pick(c.R)
	return c.ReadKey(k)
}

// ReadKey judges one Get.
func (c *Client) ReadKey(k []byte) *ReadProblem {
	got, err := c.DB.Get(k, nil)
	if err != nil && err != leveldb.ErrNotFound {
		c.Stats["reads_failed"]++
		return nil
	}
	c.Stats["reads_ok"]++
	present := err == nil
	poss, ok := c.poss[string(k)]
	if !ok {
		poss = []pv{{del: true, by: -1}}
	}
	if len(poss) > 1 {
		c.Stats["reads_of_keys_with_unknown_fate"]++
	}
	for _, p := range poss {
		if p.del && !present {
			return nil
		}
		if !p.del && present && bytes.Equal(p.v, got) {
			if len(poss) > 1 && p.by >= 0 {
				c.noteApplied(p.by)
			}
			return nil
		}
	}
	rp := &ReadProblem{Key: fmt.Sprintf("%x", k), Got: "absent"}
	if present {
		rp.Got = short(got)
	}
	for _, p := range poss {
		if p.del {
			rp.Want = append(rp.Want, fmt.Sprintf("absent(by batch %d)", p.by))
		} else {
			rp.Want = append(rp.Want, fmt.Sprintf("%s(by batch %d)", short(p.v), p.by))
		}
	}
	return rp
}

// noteApplied records that a write whose call had failed was observed applied (its unique value was read).
func (c *Client) noteApplied(id int) {
	for _, b := range c.H.Batches() {
		if b.ID == id && b.Failed && !b.SeenApplied && int(c.ID) == b.Client {
			b.SeenApplied = true
			c.Stats["failed_writes_observed_applied"]++
		}
	}
}

func short(b []byte) string {
	if len(b) > 24 {
		return fmt.Sprintf("%x…(%d)", b[:24], len(b))
	}
	return fmt.Sprintf("%x", b)
}

// APIStatus classifies a batch by what the API reported: nil => required, error => optional,
// explicitly discarded => absent.
func APIStatus(b *hist.Batch) hist.Status {
	switch {
	case b.SeenApplied && !b.Discard:
		// reported as failed, but observed applied while running: one fate only
		return hist.Required
	case b.Failed || b.Ack < 0:
		// "a write that returned an error is either wholly applied or wholly absent"
		return hist.Optional
	case b.Discard:
		return hist.Absent
	default:
		return hist.Required
	}
}

// Observe builds an observation of db (Get + full iteration).
func Observe(db *leveldb.DB) (hist.Observation, error) {
	var all []hist.KVPair
	it := db.NewIterator(nil, nil)
	for it.Next() {
		all = append(all, hist.KVPair{K: append([]byte{}, it.Key()...), V: append([]byte{}, it.Value()...)})
	}
	err := it.Error()
	it.Release()
	return hist.Observation{All: all, Get: func(key []byte) ([]byte, bool, error) {
		v, err := db.Get(key, nil)
		if err == leveldb.ErrNotFound {
			return nil, false, nil
		}
		return v, err == nil, err
	}}, err
}
