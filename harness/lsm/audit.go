// Package lsm holds the version auditor V: checks that a pinned version is a
// well-formed LSM tree (metadata order, disjointness, existence/size, and — deep
// mode — per-table entry order, recorded smallest/largest, shallower-is-newer).
package lsm

import (
	"bytes"
	"fmt"

	"github.com/syndtr/goleveldb/leveldb"
	"github.com/syndtr/goleveldb/leveldb/comparer"
	"github.com/syndtr/goleveldb/leveldb/opt"
	"github.com/syndtr/goleveldb/leveldb/storage"
	"github.com/syndtr/goleveldb/leveldb/table"

	"verif/vstor"
)

// Entry is one raw table entry.
type Entry struct {
	UKey  []byte
	Seq   uint64
	Kind  uint // 0 deletion, 1 value
	Value []byte
	Level int
	File  int64
}

// Stats describes what an audit looked at.
type Stats struct {
	Files          int
	Entries        int
	MultiLevelKeys int // user keys present in >= 2 levels (shallower-is-newer non-vacuous)
	MaxFilesLevel  int
	Levels         int
}

func ukeyOf(ik []byte) []byte {
	if len(ik) < 8 {
		return nil
	}
	return ik[:len(ik)-8]
}

// Shallow audits metadata only. It returns a list of problems (empty = well-formed).
func Shallow(vv leveldb.VerifVersion, st *vstor.Stor, ucmp comparer.Comparer) (problems []string, stats Stats) {
	icmp := leveldb.VerifInternalComparer(ucmp)
	sizes := map[int64]int64{}
	for _, f := range st.Files() {
		if f.Fd.Type == storage.TypeTable {
			sizes[f.Fd.Num] = f.Size
		}
	}
	stats.Levels = len(vv.Levels)
	seen := map[int64]int{}
	for level, tables := range vv.Levels {
		if len(tables) > stats.MaxFilesLevel {
			stats.MaxFilesLevel = len(tables)
		}
		for i, t := range tables {
			stats.Files++
			if pl, dup := seen[t.Num]; dup {
				problems = append(problems, fmt.Sprintf("table %d listed twice (levels %d and %d)", t.Num, pl, level))
			}
			seen[t.Num] = level
			if len(t.IMin) < 8 || len(t.IMax) < 8 {
				problems = append(problems, fmt.Sprintf("L%d table %d: malformed bounds", level, t.Num))
				continue
			}
			if icmp.Compare(t.IMin, t.IMax) > 0 {
				problems = append(problems, fmt.Sprintf("L%d table %d: smallest > largest", level, t.Num))
			}
			if sz, ok := sizes[t.Num]; !ok {
				problems = append(problems, fmt.Sprintf("L%d table %d: live table missing from storage", level, t.Num))
			} else if sz != t.Size {
				problems = append(problems, fmt.Sprintf("L%d table %d: recorded size %d but file has %d bytes", level, t.Num, t.Size, sz))
			}
			if i == 0 {
				continue
			}
			p := tables[i-1]
			if level == 0 {
				if !(p.Num > t.Num) {
					problems = append(problems, fmt.Sprintf("L0 not sorted by descending file number: %d before %d", p.Num, t.Num))
				}
				continue
			}
			if len(p.IMin) < 8 || len(p.IMax) < 8 {
				continue
			}
			if icmp.Compare(p.IMin, t.IMin) >= 0 {
				problems = append(problems, fmt.Sprintf("L%d not sorted by smallest key: table %d before %d", level, p.Num, t.Num))
			}
			if ucmp.Compare(ukeyOf(p.IMax), ukeyOf(t.IMin)) >= 0 {
				problems = append(problems, fmt.Sprintf("L%d tables %d and %d overlap in user key: %x .. %x", level, p.Num, t.Num, ukeyOf(p.IMax), ukeyOf(t.IMin)))
			}
		}
	}
	return
}

type memReader struct {
	*bytes.Reader
}

func (memReader) Close() error { return nil }

// ScanTable reads every entry of one table file from st.
func ScanTable(st *vstor.Stor, num int64, ucmp comparer.Comparer, f func(ikey, value []byte) error) error {
	fd := storage.FileDesc{Type: storage.TypeTable, Num: num}
	data, ok := st.ReadFile(fd)
	if !ok {
		return fmt.Errorf("table %d missing", num)
	}
	o := &opt.Options{Comparer: leveldb.VerifInternalComparer(ucmp), Strict: opt.DefaultStrict}
	tr, err := table.NewReader(memReader{bytes.NewReader(data)}, int64(len(data)), fd, nil, nil, o)
	if err != nil {
		return fmt.Errorf("table %d: %v", num, err)
	}
	defer tr.Release()
	it := tr.NewIterator(nil, nil)
	defer it.Release()
	for it.Next() {
		if err := f(it.Key(), it.Value()); err != nil {
			return err
		}
	}
	return it.Error()
}

// Deep audits metadata and the contents of every table. keepEntries asks for the raw
// entry listing (with values) to be returned as well.
func Deep(vv leveldb.VerifVersion, st *vstor.Stor, ucmp comparer.Comparer, keepEntries bool) (problems []string, stats Stats, entries []Entry) {
	problems, stats = Shallow(vv, st, ucmp)
	icmp := leveldb.VerifInternalComparer(ucmp)
	type span struct{ min, max uint64 }
	perKey := map[string]map[int]*span{}
	for level, tables := range vv.Levels {
		for _, t := range tables {
			var prev, first, last []byte
			n := 0
			err := ScanTable(st, t.Num, ucmp, func(ik, v []byte) error {
				n++
				uk, seq, kt, perr := leveldb.VerifParseInternalKey(ik)
				if perr != nil {
					problems = append(problems, fmt.Sprintf("L%d table %d: invalid internal key %x", level, t.Num, ik))
					return nil
				}
				if prev != nil && icmp.Compare(prev, ik) >= 0 {
					problems = append(problems, fmt.Sprintf("L%d table %d: entries not strictly increasing at %x", level, t.Num, ik))
				}
				prev = append(prev[:0], ik...)
				if first == nil {
					first = append([]byte(nil), ik...)
				}
				last = append(last[:0], ik...)
				m := perKey[string(uk)]
				if m == nil {
					m = map[int]*span{}
					perKey[string(uk)] = m
				}
				sp := m[level]
				if sp == nil {
					m[level] = &span{seq, seq}
				} else {
					if seq < sp.min {
						sp.min = seq
					}
					if seq > sp.max {
						sp.max = seq
					}
				}
				if keepEntries {
					entries = append(entries, Entry{UKey: append([]byte(nil), uk...), Seq: seq, Kind: kt,
						Value: append([]byte(nil), v...), Level: level, File: t.Num})
				}
				return nil
			})
			stats.Entries += n
			if err != nil {
				problems = append(problems, fmt.Sprintf("L%d table %d: scan failed: %v", level, t.Num, err))
				continue
			}
			if n == 0 {
				problems = append(problems, fmt.Sprintf("L%d table %d: empty table is live", level, t.Num))
				continue
			}
			if !bytes.Equal(first, t.IMin) {
				problems = append(problems, fmt.Sprintf("L%d table %d: recorded smallest %x but first entry is %x", level, t.Num, t.IMin, first))
			}
			if !bytes.Equal(last, t.IMax) {
				problems = append(problems, fmt.Sprintf("L%d table %d: recorded largest %x but last entry is %x", level, t.Num, t.IMax, last))
			}
		}
	}
	for uk, m := range perKey {
		if len(m) < 2 {
			continue
		}
		stats.MultiLevelKeys++
		for a, sa := range m {
			for b, sb := range m {
				if a < b && !(sa.min > sb.max) {
					problems = append(problems, fmt.Sprintf("user key %x: level %d holds seq %d which is not newer than seq %d in deeper level %d", uk, a, sa.min, sb.max, b))
				}
			}
		}
	}
	return
}

// LeakAudit compares the storage listing with what a settled DB may hold: the tables
// of the pinned version, journals >= the live journal number(s), the current manifest
// and nothing else. It returns the unexpected files and the missing live tables.
func LeakAudit(vv leveldb.VerifVersion, st *vstor.Stor, journalNum, frozenJournalNum, manifestNum int64) (extra []string, missing []string) {
	live := map[int64]bool{}
	for _, tables := range vv.Levels {
		for _, t := range tables {
			live[t.Num] = false
		}
	}
	for _, f := range st.Files() {
		switch f.Fd.Type {
		case storage.TypeTable:
			if _, ok := live[f.Fd.Num]; ok {
				live[f.Fd.Num] = true
			} else {
				extra = append(extra, f.Fd.String())
			}
		case storage.TypeJournal:
			if f.Fd.Num != journalNum && !(frozenJournalNum != 0 && f.Fd.Num == frozenJournalNum) {
				extra = append(extra, f.Fd.String())
			}
		case storage.TypeManifest:
			if f.Fd.Num != manifestNum {
				extra = append(extra, f.Fd.String())
			}
		default:
			extra = append(extra, f.Fd.String())
		}
	}
	for n, present := range live {
		if !present {
			missing = append(missing, fmt.Sprintf("%06d.ldb", n))
		}
	}
	return
}
