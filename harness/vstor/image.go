package vstor

import (
	"math/rand"
	"sort"

	"github.com/syndtr/goleveldb/leveldb/storage"
)

// Tail says what happens to the unsynced suffix of one file in a crash image.
type Tail int

const (
	TailLost    Tail = iota // only the synced prefix survives
	TailKept                // everything written survives
	TailCut                 // cut at a byte inside the unsynced suffix
	TailZeros               // cut, then zero bytes
	TailGarbage             // cut, then garbage bytes
)

func (t Tail) String() string {
	return [...]string{"lost", "kept", "cut", "cut+zeros", "cut+garbage"}[t]
}

// TailPolicy decides, per file, how many unsynced bytes survive and what follows.
// synced <= total. It returns the number of bytes of the real content to keep
// (synced <= keep <= total) and the bytes appended after them.
type TailPolicy func(fd storage.FileDesc, synced, total int64) (keep int64, pad []byte)

// AllLost keeps only synced prefixes.
func AllLost(fd storage.FileDesc, synced, total int64) (int64, []byte) { return synced, nil }

// AllKept keeps everything that was written.
func AllKept(fd storage.FileDesc, synced, total int64) (int64, []byte) { return total, nil }

// MixedPolicy draws an independent tail decision per file from r.
func MixedPolicy(r *rand.Rand, stats map[Tail]int) TailPolicy {
	return func(fd storage.FileDesc, synced, total int64) (int64, []byte) {
		if total == synced {
			return total, nil
		}
		t := Tail(r.Intn(5))
		if stats != nil {
			stats[t]++
		}
		switch t {
		case TailLost:
			return synced, nil
		case TailKept:
			return total, nil
		}
		keep := synced + r.Int63n(total-synced+1)
		var pad []byte
		if t != TailCut {
			pad = make([]byte, 1+r.Intn(40))
			if t == TailGarbage {
				r.Read(pad)
			}
		}
		return keep, pad
	}
}

type imgFile struct {
	g      *gen
	length int64
	synced int64
}

// ImageState is the durable state replayed up to some op index.
type ImageState struct {
	files   map[storage.FileDesc]*imgFile
	meta    storage.FileDesc
	hasMeta bool
	at      int64
}

// Imager replays the op log incrementally (indices must not decrease).
type Imager struct {
	ops      []Op
	gens     map[int]*gen
	st       ImageState
	initial  map[storage.FileDesc]*imgFile
	initMeta storage.FileDesc
	initHas  bool
}

func (im *Imager) reset() {
	im.st = ImageState{files: map[storage.FileDesc]*imgFile{}, meta: im.initMeta, hasMeta: im.initHas}
	for fd, f := range im.initial {
		c := *f
		im.st.files[fd] = &c
	}
}

// NewImager snapshots the op log of s (record mode) for image construction. The
// storage should be quiescent (the workload that produced the log has finished).
func (s *Stor) NewImager() *Imager {
	s.mu.Lock()
	defer s.mu.Unlock()
	im := &Imager{ops: append([]Op(nil), s.ops...), gens: map[int]*gen{}}
	for id, g := range s.gens {
		// data is append-only; freeze the current view.
		im.gens[id] = &gen{fd: g.fd, id: g.id, data: g.data[:len(g.data):len(g.data)]}
	}
	im.initial = map[storage.FileDesc]*imgFile{}
	for fd, f := range s.initFiles {
		g := &gen{fd: fd, id: f.id, data: f.data[:f.synced:f.synced]}
		im.gens[f.id] = g
		im.initial[fd] = &imgFile{g: g, length: f.synced, synced: f.synced}
	}
	im.initMeta, im.initHas = s.initMeta, s.initHas
	im.reset()
	return im
}

// Len returns the number of ops.
func (im *Imager) Len() int64 { return int64(len(im.ops)) }

// Op returns op i.
func (im *Imager) Op(i int64) Op { return im.ops[i] }

func (im *Imager) advance(k int64) {
	st := &im.st
	for ; st.at < k; st.at++ {
		op := im.ops[st.at]
		switch op.Kind {
		case OpCreate:
			if !op.Err {
				st.files[op.Fd] = &imgFile{g: im.gens[op.Gen]}
			}
		case OpWrite:
			// A failed short write still appended op.N bytes; Len is the resulting length.
			for _, f := range st.files {
				if f.g.id == op.Gen {
					f.length = op.Len
				}
			}
		case OpSync:
			if !op.Err {
				for _, f := range st.files {
					if f.g.id == op.Gen {
						f.synced = op.Len
					}
				}
			}
		case OpRemove:
			if !op.Err {
				delete(st.files, op.Fd)
			}
		case OpRename:
			if !op.Err {
				if f, ok := st.files[op.Fd]; ok {
					delete(st.files, op.Fd)
					st.files[op.Fd2] = f
				}
			}
		case OpSetMeta:
			if !op.Err {
				st.meta, st.hasMeta = op.Fd, true
			}
		}
	}
}

// ImageInfo summarises one materialised image.
type ImageInfo struct {
	At           int64
	Files        int
	UnsyncedTail int // files that had an unsynced suffix at the cut
	LostBytes    int64
}

// ImageAt materialises the post-crash storage for a crash just before op k
// (k == Len() means after the last op). Calls must use non-decreasing k.
func (im *Imager) ImageAt(k int64, pol TailPolicy) (*Stor, ImageInfo) {
	if k < im.st.at {
		im.reset()
	}
	im.advance(k)
	out := New(false)
	info := ImageInfo{At: k}
	fds := make([]storage.FileDesc, 0, len(im.st.files))
	for fd := range im.st.files {
		fds = append(fds, fd)
	}
	sort.Slice(fds, func(i, j int) bool {
		if fds[i].Type != fds[j].Type {
			return fds[i].Type < fds[j].Type
		}
		return fds[i].Num < fds[j].Num
	})
	for _, fd := range fds {
		f := im.st.files[fd]
		keep, pad := f.length, []byte(nil)
		if f.synced < f.length {
			info.UnsyncedTail++
			keep, pad = pol(fd, f.synced, f.length)
			if keep < f.synced {
				keep = f.synced
			}
			if keep > f.length {
				keep = f.length
			}
			info.LostBytes += f.length - keep
		}
		data := make([]byte, 0, int(keep)+len(pad))
		data = append(data, f.g.data[:keep]...)
		data = append(data, pad...)
		out.nextGen++
		out.files[fd] = &gen{fd: fd, id: out.nextGen, data: data, synced: int64(len(data))}
		info.Files++
	}
	out.meta, out.hasMeta = im.st.meta, im.st.hasMeta
	return out, info
}

// Clone returns a recording or non-recording copy of the live state of s (all
// bytes kept, as after a clean process exit without power loss).
func (s *Stor) Clone(record bool) *Stor {
	s.mu.Lock()
	defer s.mu.Unlock()
	out := New(record)
	for fd, g := range s.files {
		out.nextGen++
		ng := &gen{fd: fd, id: out.nextGen, data: append([]byte(nil), g.data...), synced: int64(len(g.data))}
		out.files[fd] = ng
		if record {
			out.gens[ng.id] = ng
			// Remember the starting state: these files have no Create op in the new log.
			out.initFiles[fd] = &gen{fd: fd, id: ng.id, data: ng.data[:len(ng.data):len(ng.data)], synced: int64(len(ng.data))}
		}
	}
	out.meta, out.hasMeta = s.meta, s.hasMeta
	out.initMeta, out.initHas = s.meta, s.hasMeta
	return out
}
