// Package vstor is the checker's storage.Storage: an in-memory implementation that
// records every operation with a global index, models durability (per-file synced
// prefix, atomic ordered directory operations) so that crash images can be
// materialised at any operation boundary, injects faults, offers gates to hold
// background work at a chosen storage operation, and carries a mutation sentinel
// for read-only checks.
package vstor

import (
	"errors"
	"fmt"
	"io"
	"os"
	"runtime"
	"sort"
	"sync"
	"time"

	"github.com/syndtr/goleveldb/leveldb/storage"
)

// OpKind identifies a storage operation.
type OpKind uint8

const (
	OpLock OpKind = iota
	OpUnlock
	OpCreate
	OpWrite
	OpSync
	OpCloseW
	OpOpen
	OpReadAt
	OpCloseR
	OpRemove
	OpRename
	OpSetMeta
	OpGetMeta
	OpList
	OpLog
	OpStorClose
	NOpKinds
)

var opNames = [...]string{"lock", "unlock", "create", "write", "sync", "closew", "open", "readat", "closer",
	"remove", "rename", "setmeta", "getmeta", "list", "log", "storclose"}

func (k OpKind) String() string {
	if int(k) < len(opNames) {
		return opNames[k]
	}
	return fmt.Sprintf("op%d", k)
}

// Mutating reports whether the operation changes stored state.
func (k OpKind) Mutating() bool {
	switch k {
	case OpCreate, OpWrite, OpSync, OpRemove, OpRename, OpSetMeta:
		return true
	}
	return false
}

// Op is one recorded operation. ReadAt and Log are counted but not kept in the log.
type Op struct {
	Idx  int64
	Kind OpKind
	Fd   storage.FileDesc
	Fd2  storage.FileDesc // rename target
	Gen  int              // file generation (Create starts a new one)
	N    int              // bytes written
	Len  int64            // file length after the operation (write/sync)
	Err  bool             // the operation returned an error
	Inj  bool             // the error was injected
}

func (o Op) String() string {
	e := ""
	if o.Err {
		e = " ERR"
		if o.Inj {
			e = " ERR(injected)"
		}
	}
	switch o.Kind {
	case OpWrite, OpSync:
		return fmt.Sprintf("#%d %s %v n=%d len=%d%s", o.Idx, o.Kind, o.Fd, o.N, o.Len, e)
	case OpRename:
		return fmt.Sprintf("#%d rename %v->%v%s", o.Idx, o.Fd, o.Fd2, e)
	case OpLock, OpUnlock, OpGetMeta, OpList, OpStorClose:
		return fmt.Sprintf("#%d %s%s", o.Idx, o.Kind, e)
	}
	return fmt.Sprintf("#%d %s %v%s", o.Idx, o.Kind, o.Fd, e)
}

// ErrInjected is returned by operations hit by a fault plan.
var ErrInjected = errors.New("vstor: injected I/O error")

type gen struct {
	fd     storage.FileDesc
	id     int
	data   []byte
	synced int64
}

// Fault describes an injected failure. Zero Type matches every file type.
type Fault struct {
	Kind  OpKind
	Type  storage.FileType
	Nth   int  // fire at the Nth matching operation counted from arming (1-based; 0 = 1)
	Count int  // consecutive matching operations to fail (0 = 1, <0 = until cleared)
	Short bool // writes: half of the bytes are written, then the error is returned
	Flip  bool // ReadAt: flip one bit of the returned data instead of failing

	seen, fired int
	Hits        int
}

// Gate blocks the next matching operation until Release is called.
type Gate struct {
	Kind    OpKind
	Type    storage.FileType
	arrived chan struct{}
	release chan struct{}
	used    bool
}

// Arrived is closed when an operation has reached the gate.
func (g *Gate) Arrived() <-chan struct{} { return g.arrived }

// Release lets the blocked operation continue (idempotent).
func (g *Gate) Release() {
	select {
	case <-g.release:
	default:
		close(g.release)
	}
}

// Sentinel is an operation observed after Freeze.
type Sentinel struct {
	Op    Op
	Stack string
}

// LogLine is one line passed to Storage.Log with the op index at that time.
type LogLine struct {
	At   int64
	Text string
}

// Stor is the checker storage.
type Stor struct {
	mu           sync.Mutex
	files        map[storage.FileDesc]*gen
	meta         storage.FileDesc
	hasMeta      bool
	locked       bool
	closed       bool
	nextGen      int
	record       bool
	ops          []Op
	opCount      int64
	gens         map[int]*gen // every generation ever created (record mode)
	counts       [NOpKinds][5]int64
	faults       []*Fault
	gates        []*Gate
	frozen       bool
	sentinel     []Sentinel
	logs         []LogLine
	keepLogs     bool
	everLocked   bool
	unownedOps   int64
	firstUnowned string
	// state at the start of recording (for storages cloned from an earlier one)
	initFiles map[storage.FileDesc]*gen
	initMeta  storage.FileDesc
	initHas   bool
	// OnRemove, if set, is called (without the lock) before a Remove takes effect.
	OnRemove func(fd storage.FileDesc, opIdx int64)
	// OnLog, if set, is called (without the lock) for every Log line.
	OnLog func(line string)
}

// New creates an empty storage. record: keep the op log and every file generation
// (needed for crash images); otherwise only counters and live files are kept.
func New(record bool) *Stor {
	return &Stor{files: map[storage.FileDesc]*gen{}, gens: map[int]*gen{}, initFiles: map[storage.FileDesc]*gen{}, record: record, keepLogs: true}
}

func bucket(t storage.FileType) int {
	switch t {
	case storage.TypeManifest:
		return 1
	case storage.TypeJournal:
		return 2
	case storage.TypeTable:
		return 3
	case storage.TypeTemp:
		return 4
	}
	return 0
}

// TypeName names a file type.
func TypeName(t storage.FileType) string {
	switch t {
	case storage.TypeManifest:
		return "manifest"
	case storage.TypeJournal:
		return "journal"
	case storage.TypeTable:
		return "table"
	case storage.TypeTemp:
		return "temp"
	}
	return "-"
}

// rec appends an op; mu must be held.
func (s *Stor) rec(op Op) Op {
	op.Idx = s.opCount
	s.opCount++
	if s.record {
		s.ops = append(s.ops, op)
	}
	s.counts[op.Kind][bucket(op.Fd.Type)]++
	if !s.locked && op.Kind != OpLock && op.Kind != OpUnlock && op.Kind != OpStorClose && s.everLocked {
		// a storage operation by someone who does not own the storage (e.g. a DB that has
		// already released its lock)
		s.unownedOps++
		if s.firstUnowned == "" {
			s.firstUnowned = op.String()
		}
	}
	if op.Kind == OpLock && !op.Err {
		s.everLocked = true
	}
	if s.frozen && op.Kind.Mutating() {
		buf := make([]byte, 16384)
		n := runtime.Stack(buf, false)
		if len(s.sentinel) < 64 {
			s.sentinel = append(s.sentinel, Sentinel{Op: op, Stack: string(buf[:n])})
		}
	}
	return op
}

// fault consults the fault plans; mu must be held.
func (s *Stor) fault(k OpKind, t storage.FileType) *Fault {
	for _, f := range s.faults {
		if f.Kind != k || (f.Type != 0 && f.Type&t == 0) {
			continue
		}
		f.seen++
		nth := f.Nth
		if nth <= 0 {
			nth = 1
		}
		if f.seen < nth {
			continue
		}
		cnt := f.Count
		if cnt == 0 {
			cnt = 1
		}
		if cnt > 0 && f.fired >= cnt {
			continue
		}
		f.fired++
		f.Hits++
		return f
	}
	return nil
}

// AddDelay makes the next matching operation sleep for d before it proceeds (one shot). It only
// widens a window; nothing is decided by the duration.
func (s *Stor) AddDelay(k OpKind, t storage.FileType, d time.Duration) {
	g := &Gate{Kind: k, Type: t, arrived: make(chan struct{}), release: make(chan struct{})}
	s.mu.Lock()
	s.gates = append(s.gates, g)
	s.mu.Unlock()
	go func() {
		select {
		case <-g.arrived:
			time.Sleep(d)
		case <-time.After(10 * time.Second):
		}
		g.Release()
	}()
}

// gate blocks at a matching gate; mu must be held on entry and is held on return.
func (s *Stor) gate(k OpKind, t storage.FileType) {
	for _, g := range s.gates {
		if g.used || g.Kind != k || (g.Type != 0 && g.Type&t == 0) {
			continue
		}
		g.used = true
		close(g.arrived)
		s.mu.Unlock()
		<-g.release
		s.mu.Lock()
		return
	}
}

// AddFault arms a fault plan and returns it (its Hits field tells whether it fired).
func (s *Stor) AddFault(f Fault) *Fault {
	s.mu.Lock()
	defer s.mu.Unlock()
	p := &f
	s.faults = append(s.faults, p)
	return p
}

// ClearFaults disarms every fault plan.
func (s *Stor) ClearFaults() {
	s.mu.Lock()
	s.faults = nil
	s.mu.Unlock()
}

// AddGate installs a gate for the next matching operation.
func (s *Stor) AddGate(k OpKind, t storage.FileType) *Gate {
	g := &Gate{Kind: k, Type: t, arrived: make(chan struct{}), release: make(chan struct{})}
	s.mu.Lock()
	s.gates = append(s.gates, g)
	s.mu.Unlock()
	return g
}

// ReleaseGates releases and removes every gate.
func (s *Stor) ReleaseGates() {
	s.mu.Lock()
	gs := s.gates
	s.gates = nil
	s.mu.Unlock()
	for _, g := range gs {
		g.Release()
	}
}

// Freeze arms the mutation sentinel: every mutating operation from now on is recorded
// with the caller's stack.
func (s *Stor) Freeze() {
	s.mu.Lock()
	s.frozen = true
	s.mu.Unlock()
}

// Unfreeze disarms the sentinel.
func (s *Stor) Unfreeze() {
	s.mu.Lock()
	s.frozen = false
	s.mu.Unlock()
}

// UnownedOps returns how many storage operations were performed while nobody held the
// storage lock (after the first Lock), and the first of them.
func (s *Stor) UnownedOps() (int64, string) {
	s.mu.Lock()
	defer s.mu.Unlock()
	return s.unownedOps, s.firstUnowned
}

// Sentinels returns the mutating operations seen while frozen.
func (s *Stor) Sentinels() []Sentinel {
	s.mu.Lock()
	defer s.mu.Unlock()
	return append([]Sentinel(nil), s.sentinel...)
}

// OpIndex returns the number of operations recorded so far (ReadAt and Log excluded).
func (s *Stor) OpIndex() int64 {
	s.mu.Lock()
	defer s.mu.Unlock()
	return s.opCount
}

// Ops returns a copy of the op log (record mode).
func (s *Stor) Ops() []Op {
	s.mu.Lock()
	defer s.mu.Unlock()
	return append([]Op(nil), s.ops...)
}

// Count returns how many operations of a kind were seen on a file type (0 = all types).
func (s *Stor) Count(k OpKind, t storage.FileType) int64 {
	s.mu.Lock()
	defer s.mu.Unlock()
	if t == 0 {
		var n int64
		for _, c := range s.counts[k] {
			n += c
		}
		return n
	}
	return s.counts[k][bucket(t)]
}

// Touches returns the number of operations of every kind except Log, including ReadAt.
func (s *Stor) Touches() int64 {
	s.mu.Lock()
	defer s.mu.Unlock()
	var n int64
	for k := OpKind(0); k < NOpKinds; k++ {
		if k == OpLog {
			continue
		}
		for _, c := range s.counts[k] {
			n += c
		}
	}
	return n
}

// Logs returns the lines passed to Log.
func (s *Stor) Logs() []LogLine {
	s.mu.Lock()
	defer s.mu.Unlock()
	return append([]LogLine(nil), s.logs...)
}

// SetKeepLogs switches retention of Log lines.
func (s *Stor) SetKeepLogs(b bool) {
	s.mu.Lock()
	s.keepLogs = b
	s.mu.Unlock()
}

// IsLocked reports the storage lock state.
func (s *Stor) IsLocked() bool {
	s.mu.Lock()
	defer s.mu.Unlock()
	return s.locked
}

// FileInfo describes a live file.
type FileInfo struct {
	Fd     storage.FileDesc
	Size   int64
	Synced int64
}

// Files lists the live files sorted by (type, number).
func (s *Stor) Files() []FileInfo {
	s.mu.Lock()
	defer s.mu.Unlock()
	out := make([]FileInfo, 0, len(s.files))
	for fd, g := range s.files {
		out = append(out, FileInfo{Fd: fd, Size: int64(len(g.data)), Synced: g.synced})
	}
	sort.Slice(out, func(i, j int) bool {
		if out[i].Fd.Type != out[j].Fd.Type {
			return out[i].Fd.Type < out[j].Fd.Type
		}
		return out[i].Fd.Num < out[j].Fd.Num
	})
	return out
}

// Meta returns the current meta (CURRENT) pointer.
func (s *Stor) Meta() (storage.FileDesc, bool) {
	s.mu.Lock()
	defer s.mu.Unlock()
	return s.meta, s.hasMeta
}

// ReadFile returns a copy of a live file's bytes.
func (s *Stor) ReadFile(fd storage.FileDesc) ([]byte, bool) {
	s.mu.Lock()
	defer s.mu.Unlock()
	g, ok := s.files[fd]
	if !ok {
		return nil, false
	}
	return append([]byte(nil), g.data...), true
}

// PutFile creates or replaces a file out of band (not recorded, fully synced).
func (s *Stor) PutFile(fd storage.FileDesc, data []byte) {
	s.mu.Lock()
	defer s.mu.Unlock()
	s.nextGen++
	g := &gen{fd: fd, id: s.nextGen, data: append([]byte(nil), data...), synced: int64(len(data))}
	s.files[fd] = g
}

// DeleteFile removes a file out of band (not recorded).
func (s *Stor) DeleteFile(fd storage.FileDesc) {
	s.mu.Lock()
	delete(s.files, fd)
	s.mu.Unlock()
}

// SetMetaRaw sets or clears the meta pointer out of band.
func (s *Stor) SetMetaRaw(fd storage.FileDesc, has bool) {
	s.mu.Lock()
	s.meta, s.hasMeta = fd, has
	s.mu.Unlock()
}

// ---- storage.Storage

type locker struct {
	s    *Stor
	once sync.Once
}

func (l *locker) Unlock() {
	l.once.Do(func() {
		l.s.mu.Lock()
		l.s.locked = false
		l.s.rec(Op{Kind: OpUnlock})
		l.s.mu.Unlock()
	})
}

// Lock implements storage.Storage.
func (s *Stor) Lock() (storage.Locker, error) {
	s.mu.Lock()
	defer s.mu.Unlock()
	if s.closed {
		return nil, storage.ErrClosed
	}
	if f := s.fault(OpLock, 0); f != nil {
		s.rec(Op{Kind: OpLock, Err: true, Inj: true})
		return nil, ErrInjected
	}
	if s.locked {
		s.rec(Op{Kind: OpLock, Err: true})
		return nil, storage.ErrLocked
	}
	s.locked = true
	s.rec(Op{Kind: OpLock})
	return &locker{s: s}, nil
}

// Log implements storage.Storage.
func (s *Stor) Log(str string) {
	s.mu.Lock()
	s.counts[OpLog][0]++
	if s.keepLogs {
		s.logs = append(s.logs, LogLine{At: s.opCount, Text: str})
	}
	cb := s.OnLog
	s.mu.Unlock()
	if cb != nil {
		cb(str)
	}
}

// SetMeta implements storage.Storage.
func (s *Stor) SetMeta(fd storage.FileDesc) error {
	if !storage.FileDescOk(fd) {
		return storage.ErrInvalidFile
	}
	s.mu.Lock()
	defer s.mu.Unlock()
	if s.closed {
		return storage.ErrClosed
	}
	s.gate(OpSetMeta, fd.Type)
	if f := s.fault(OpSetMeta, fd.Type); f != nil {
		s.rec(Op{Kind: OpSetMeta, Fd: fd, Err: true, Inj: true})
		return ErrInjected
	}
	s.meta, s.hasMeta = fd, true
	s.rec(Op{Kind: OpSetMeta, Fd: fd})
	return nil
}

// GetMeta implements storage.Storage.
func (s *Stor) GetMeta() (storage.FileDesc, error) {
	s.mu.Lock()
	defer s.mu.Unlock()
	if s.closed {
		return storage.FileDesc{}, storage.ErrClosed
	}
	if f := s.fault(OpGetMeta, 0); f != nil {
		s.rec(Op{Kind: OpGetMeta, Err: true, Inj: true})
		return storage.FileDesc{}, ErrInjected
	}
	s.rec(Op{Kind: OpGetMeta})
	if !s.hasMeta {
		return storage.FileDesc{}, os.ErrNotExist
	}
	if _, ok := s.files[s.meta]; !ok {
		return storage.FileDesc{}, os.ErrNotExist
	}
	return s.meta, nil
}

// List implements storage.Storage.
func (s *Stor) List(ft storage.FileType) ([]storage.FileDesc, error) {
	s.mu.Lock()
	defer s.mu.Unlock()
	if s.closed {
		return nil, storage.ErrClosed
	}
	if f := s.fault(OpList, 0); f != nil {
		s.rec(Op{Kind: OpList, Err: true, Inj: true})
		return nil, ErrInjected
	}
	s.rec(Op{Kind: OpList})
	var fds []storage.FileDesc
	for fd := range s.files {
		if fd.Type&ft != 0 {
			fds = append(fds, fd)
		}
	}
	sort.Slice(fds, func(i, j int) bool {
		if fds[i].Type != fds[j].Type {
			return fds[i].Type < fds[j].Type
		}
		return fds[i].Num < fds[j].Num
	})
	return fds, nil
}

// Open implements storage.Storage.
func (s *Stor) Open(fd storage.FileDesc) (storage.Reader, error) {
	if !storage.FileDescOk(fd) {
		return nil, storage.ErrInvalidFile
	}
	s.mu.Lock()
	defer s.mu.Unlock()
	if s.closed {
		return nil, storage.ErrClosed
	}
	s.gate(OpOpen, fd.Type)
	if f := s.fault(OpOpen, fd.Type); f != nil {
		s.rec(Op{Kind: OpOpen, Fd: fd, Err: true, Inj: true})
		return nil, ErrInjected
	}
	g, ok := s.files[fd]
	if !ok {
		s.rec(Op{Kind: OpOpen, Fd: fd, Err: true})
		return nil, os.ErrNotExist
	}
	s.rec(Op{Kind: OpOpen, Fd: fd, Gen: g.id})
	return &reader{s: s, g: g, fd: fd}, nil
}

// Create implements storage.Storage.
func (s *Stor) Create(fd storage.FileDesc) (storage.Writer, error) {
	if !storage.FileDescOk(fd) {
		return nil, storage.ErrInvalidFile
	}
	s.mu.Lock()
	defer s.mu.Unlock()
	if s.closed {
		return nil, storage.ErrClosed
	}
	s.gate(OpCreate, fd.Type)
	if f := s.fault(OpCreate, fd.Type); f != nil {
		s.rec(Op{Kind: OpCreate, Fd: fd, Err: true, Inj: true})
		return nil, ErrInjected
	}
	s.nextGen++
	g := &gen{fd: fd, id: s.nextGen}
	s.files[fd] = g
	if s.record {
		s.gens[g.id] = g
	}
	s.rec(Op{Kind: OpCreate, Fd: fd, Gen: g.id})
	return &writer{s: s, g: g, fd: fd}, nil
}

// Remove implements storage.Storage.
func (s *Stor) Remove(fd storage.FileDesc) error {
	if !storage.FileDescOk(fd) {
		return storage.ErrInvalidFile
	}
	s.mu.Lock()
	cb := s.OnRemove
	idx := s.opCount
	s.mu.Unlock()
	if cb != nil {
		cb(fd, idx)
	}
	s.mu.Lock()
	defer s.mu.Unlock()
	if s.closed {
		return storage.ErrClosed
	}
	s.gate(OpRemove, fd.Type)
	if f := s.fault(OpRemove, fd.Type); f != nil {
		s.rec(Op{Kind: OpRemove, Fd: fd, Err: true, Inj: true})
		return ErrInjected
	}
	g, ok := s.files[fd]
	if !ok {
		s.rec(Op{Kind: OpRemove, Fd: fd, Err: true})
		return os.ErrNotExist
	}
	delete(s.files, fd)
	s.rec(Op{Kind: OpRemove, Fd: fd, Gen: g.id})
	return nil
}

// Rename implements storage.Storage.
func (s *Stor) Rename(oldfd, newfd storage.FileDesc) error {
	if !storage.FileDescOk(oldfd) || !storage.FileDescOk(newfd) {
		return storage.ErrInvalidFile
	}
	if oldfd == newfd {
		return nil
	}
	s.mu.Lock()
	defer s.mu.Unlock()
	if s.closed {
		return storage.ErrClosed
	}
	s.gate(OpRename, oldfd.Type)
	if f := s.fault(OpRename, oldfd.Type); f != nil {
		s.rec(Op{Kind: OpRename, Fd: oldfd, Fd2: newfd, Err: true, Inj: true})
		return ErrInjected
	}
	g, ok := s.files[oldfd]
	if !ok {
		s.rec(Op{Kind: OpRename, Fd: oldfd, Fd2: newfd, Err: true})
		return os.ErrNotExist
	}
	delete(s.files, oldfd)
	s.files[newfd] = g
	s.rec(Op{Kind: OpRename, Fd: oldfd, Fd2: newfd, Gen: g.id})
	return nil
}

// Close implements storage.Storage.
func (s *Stor) Close() error {
	s.mu.Lock()
	defer s.mu.Unlock()
	if s.closed {
		return storage.ErrClosed
	}
	s.closed = true
	s.rec(Op{Kind: OpStorClose})
	return nil
}

type writer struct {
	s      *Stor
	g      *gen
	fd     storage.FileDesc
	closed bool
}

func (w *writer) Write(p []byte) (int, error) {
	s := w.s
	s.mu.Lock()
	defer s.mu.Unlock()
	if w.closed {
		return 0, storage.ErrClosed
	}
	s.gate(OpWrite, w.fd.Type)
	if f := s.fault(OpWrite, w.fd.Type); f != nil {
		n := 0
		if f.Short && len(p) > 1 {
			n = len(p) / 2
			w.g.data = append(w.g.data, p[:n]...)
		}
		s.rec(Op{Kind: OpWrite, Fd: w.fd, Gen: w.g.id, N: n, Len: int64(len(w.g.data)), Err: true, Inj: true})
		return n, ErrInjected
	}
	w.g.data = append(w.g.data, p...)
	s.rec(Op{Kind: OpWrite, Fd: w.fd, Gen: w.g.id, N: len(p), Len: int64(len(w.g.data))})
	return len(p), nil
}

func (w *writer) Sync() error {
	s := w.s
	s.mu.Lock()
	defer s.mu.Unlock()
	if w.closed {
		return storage.ErrClosed
	}
	s.gate(OpSync, w.fd.Type)
	if f := s.fault(OpSync, w.fd.Type); f != nil {
		s.rec(Op{Kind: OpSync, Fd: w.fd, Gen: w.g.id, Len: int64(len(w.g.data)), Err: true, Inj: true})
		return ErrInjected
	}
	w.g.synced = int64(len(w.g.data))
	s.rec(Op{Kind: OpSync, Fd: w.fd, Gen: w.g.id, Len: w.g.synced})
	return nil
}

func (w *writer) Close() error {
	s := w.s
	s.mu.Lock()
	defer s.mu.Unlock()
	if w.closed {
		return storage.ErrClosed
	}
	if f := s.fault(OpCloseW, w.fd.Type); f != nil {
		// The descriptor is gone either way, as with close(2).
		w.closed = true
		s.rec(Op{Kind: OpCloseW, Fd: w.fd, Gen: w.g.id, Err: true, Inj: true})
		return ErrInjected
	}
	w.closed = true
	s.rec(Op{Kind: OpCloseW, Fd: w.fd, Gen: w.g.id})
	return nil
}

type reader struct {
	s      *Stor
	g      *gen
	fd     storage.FileDesc
	off    int64
	closed bool
}

func (r *reader) Read(p []byte) (int, error) {
	n, err := r.ReadAt(p, r.off)
	r.off += int64(n)
	if err == io.EOF && n > 0 {
		err = nil
	}
	return n, err
}

func (r *reader) Seek(offset int64, whence int) (int64, error) {
	s := r.s
	s.mu.Lock()
	defer s.mu.Unlock()
	if r.closed {
		return 0, storage.ErrClosed
	}
	switch whence {
	case io.SeekStart:
	case io.SeekCurrent:
		offset += r.off
	case io.SeekEnd:
		offset += int64(len(r.g.data))
	default:
		return 0, errors.New("vstor: invalid whence")
	}
	if offset < 0 {
		return 0, errors.New("vstor: negative position")
	}
	r.off = offset
	return offset, nil
}

func (r *reader) ReadAt(p []byte, off int64) (int, error) {
	s := r.s
	s.mu.Lock()
	defer s.mu.Unlock()
	if r.closed {
		return 0, storage.ErrClosed
	}
	s.counts[OpReadAt][bucket(r.fd.Type)]++
	f := s.fault(OpReadAt, r.fd.Type)
	if f != nil && !f.Flip {
		return 0, ErrInjected
	}
	if off < 0 {
		return 0, errors.New("vstor: negative offset")
	}
	if off >= int64(len(r.g.data)) {
		return 0, io.EOF
	}
	n := copy(p, r.g.data[off:])
	if f != nil && f.Flip && n > 0 {
		p[(f.Hits*7919)%n] ^= 1 << uint(f.Hits%8)
	}
	if n < len(p) {
		return n, io.EOF
	}
	return n, nil
}

func (r *reader) Close() error {
	s := r.s
	s.mu.Lock()
	defer s.mu.Unlock()
	if r.closed {
		return storage.ErrClosed
	}
	r.closed = true
	s.rec(Op{Kind: OpCloseR, Fd: r.fd, Gen: r.g.id})
	return nil
}

var _ storage.Storage = (*Stor)(nil)
