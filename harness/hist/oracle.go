// Package hist holds the write-history recorder and the possible-value-set oracle P
// used wherever some writes have an unknown fate (crash images, fault runs).
package hist

import (
	"bytes"
	"fmt"
	"sort"
	"sync"
)

// WOp is one record of a batch.
type WOp struct {
	Del  bool
	K, V []byte
}

// Status of a batch with respect to one observation.
type Status int

const (
	Required Status = iota // must be wholly present
	Optional               // wholly present or wholly absent
	Absent                 // must be wholly absent
)

// Batch is one atomic unit issued by a client: a Put/Delete, a Write, or a transaction.
type Batch struct {
	ID      int   // global issue order (per client order is what matters per key)
	Client  int
	Ops     []WOp // includes the marker Put, if any
	Marker  []byte
	Sync    bool  // acknowledged durability was requested (Sync option) or implied (transaction commit)
	Kind    string
	Start   int64 // storage op index before the call was issued
	Ack     int64 // storage op index after the call returned nil; -1 if it never returned / returned an error
	Failed  bool  // the call returned an error (fate unknown)
	Discard bool  // explicitly discarded transaction: must never be visible
	// SeenApplied is set when a read in the same incarnation returned this batch's value although the
	// call had reported an error: the write was applied, and must not vanish at a clean reopen.
	SeenApplied bool
}

// History is a thread-safe list of batches.
type History struct {
	mu sync.Mutex
	B  []*Batch
}

// Add appends a batch and assigns its ID.
func (h *History) Add(b *Batch) *Batch {
	h.mu.Lock()
	b.ID = len(h.B)
	h.B = append(h.B, b)
	h.mu.Unlock()
	return b
}

// Batches returns a snapshot of the list.
func (h *History) Batches() []*Batch {
	h.mu.Lock()
	defer h.mu.Unlock()
	return append([]*Batch(nil), h.B...)
}

// CrashStatus classifies b for a crash just before storage op k.
func CrashStatus(b *Batch, k int64) Status {
	switch {
	case b.Discard:
		return Absent
	case k <= b.Start:
		return Absent // never issued
	case b.Ack >= 0 && b.Ack <= k && !b.Failed:
		if b.Sync {
			return Required
		}
		return Optional
	default:
		return Optional // in flight, or failed
	}
}

// Problem is one oracle complaint.
type Problem struct {
	Kind string `json:"kind"`
	Text string `json:"text"`
}

// Observation is what was read back.
type Observation struct {
	// Get returns the value and whether the key is present.
	Get func(k []byte) ([]byte, bool, error)
	// All is the full iteration (may be nil to skip the never-written check).
	All []KVPair
}

// KVPair is one iterated pair.
type KVPair struct{ K, V []byte }

// CheckStats says what the oracle looked at.
type CheckStats struct {
	Required, Optional, Absent int
	OptionalPresent            int // optional batches observed present (through their marker)
	OptionalAbsent             int
	KeysChecked                int
	AmbiguousKeys              int // keys whose possible set had > 1 element
}

// Check evaluates the oracle: some subset of the batches, applied in issue order, each
// whole or absent, superset of the Required ones, nothing Absent, nothing never written.
func Check(batches []*Batch, status func(*Batch) Status, obs Observation) (probs []Problem, st CheckStats) {
	const (
		present = 1
		absent  = 2
		unknown = 3
	)
	fate := make(map[int]int, len(batches))
	universe := map[string]bool{}
	add := func(kind, format string, a ...interface{}) {
		if len(probs) < 20 {
			probs = append(probs, Problem{Kind: kind, Text: fmt.Sprintf(format, a...)})
		}
	}
	for _, b := range batches {
		for _, o := range b.Ops {
			universe[string(o.K)] = true
		}
		s := status(b)
		var markerSeen, haveMarker bool
		if b.Marker != nil {
			haveMarker = true
			v, ok, err := obs.Get(b.Marker)
			if err != nil {
				add("read-error", "Get(marker of batch %d) failed: %v", b.ID, err)
				continue
			}
			markerSeen = ok
			_ = v
		}
		switch s {
		case Required:
			st.Required++
			fate[b.ID] = present
			if haveMarker && !markerSeen {
				add("lost-acknowledged-write", "batch %d (%s, %d records, acknowledged durable at storage op %d) is missing: its marker %x is absent", b.ID, b.Kind, len(b.Ops), b.Ack, b.Marker)
			}
		case Absent:
			st.Absent++
			fate[b.ID] = absent
			if haveMarker && markerSeen {
				add("phantom-batch", "batch %d (%s) must not be visible (never issued / discarded) but its marker %x is present", b.ID, b.Kind, b.Marker)
			}
		default:
			st.Optional++
			if haveMarker {
				if markerSeen {
					fate[b.ID] = present
					st.OptionalPresent++
				} else {
					fate[b.ID] = absent
					st.OptionalAbsent++
				}
			} else {
				fate[b.ID] = unknown
			}
		}
	}
	// per key possible sets
	type kop struct {
		b  *Batch
		op WOp
	}
	perKey := map[string][]kop{}
	for _, b := range batches {
		for _, o := range b.Ops {
			perKey[string(o.K)] = append(perKey[string(o.K)], kop{b, o})
		}
	}
	keys := make([]string, 0, len(perKey))
	for k := range perKey {
		keys = append(keys, k)
	}
	sort.Strings(keys)
	for _, k := range keys {
		ops := perKey[k]
		// possible values; nil entry with del=true means "absent"
		type val struct {
			del bool
			v   []byte
			by  int
		}
		poss := []val{{del: true, by: -1}}
		for _, o := range ops {
			nv := val{del: o.op.Del, v: o.op.V, by: o.b.ID}
			switch fate[o.b.ID] {
			case present:
				poss = []val{nv}
			case unknown:
				poss = append(poss, nv)
			}
		}
		got, ok, err := obs.Get([]byte(k))
		if err != nil {
			add("read-error", "Get(%s) failed: %v", short([]byte(k)), err)
			continue
		}
		st.KeysChecked++
		if len(poss) > 1 {
			st.AmbiguousKeys++
		}
		match := false
		for _, p := range poss {
			if p.del && !ok {
				match = true
			}
			if !p.del && ok && bytes.Equal(p.v, got) {
				match = true
			}
		}
		if !match {
			var want []string
			for _, p := range poss {
				if p.del {
					want = append(want, fmt.Sprintf("absent(by batch %d)", p.by))
				} else {
					want = append(want, fmt.Sprintf("%s(by batch %d)", short(p.v), p.by))
				}
			}
			g := "absent"
			if ok {
				g = short(got)
			}
			kind := "unexplained-value"
			if !ok {
				kind = "lost-acknowledged-write"
			} else if len(poss) == 1 && poss[0].del {
				kind = "phantom-value"
			}
			add(kind, "key %s holds %s; explainable values: %v", short([]byte(k)), g, want)
		}
	}
	for _, p := range obs.All {
		if !universe[string(p.K)] {
			add("never-written-key", "iteration yields key %s = %s which no batch ever wrote", short(p.K), short(p.V))
		}
	}
	return
}

func short(b []byte) string {
	if len(b) > 24 {
		return fmt.Sprintf("%x…(%d)", b[:24], len(b))
	}
	return fmt.Sprintf("%x", b)
}
