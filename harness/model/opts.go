package model

import (
	"fmt"
	"math/rand"

	"github.com/syndtr/goleveldb/leveldb/comparer"
	"github.com/syndtr/goleveldb/leveldb/filter"
	"github.com/syndtr/goleveldb/leveldb/opt"
)

// OptSet is one point of the option matrix together with a printable description.
type OptSet struct {
	O    *opt.Options
	Desc map[string]interface{}
}

// Clone returns a copy of the options (so ReadOnly etc. can be varied per open).
func (s OptSet) Clone() *opt.Options {
	o := *s.O
	return &o
}

// Key is a short string identifying the option set.
func (s OptSet) Key() string { return fmt.Sprint(s.Desc) }

func pick(r *rand.Rand, xs ...int) int { return xs[r.Intn(len(xs))] }

// OptConstraints lets a worker restrict the matrix.
type OptConstraints struct {
	OnlyBytewise    bool // only comparers with bytewise order
	DefaultComparer bool // comparer.DefaultComparer only
	NoTinyManifest  bool
	LargeBuffers    bool // write buffer >= 16 KiB (for workloads that must not flush constantly)
	Comparer        comparer.Comparer
	NonInjective    bool // one option set in eight uses ZeroPad (distinct byte strings that are one user key; no filter)
}

// RandomOptions draws a coherent option set: CompactionL0Trigger < WriteL0SlowdownTrigger
// <= WriteL0PauseTrigger always holds (a pause trigger at or below the compaction trigger
// is a contradictory configuration that livelocks a single writer).
func RandomOptions(r *rand.Rand, c OptConstraints) OptSet {
	o := &opt.Options{}
	d := map[string]interface{}{}
	set := func(k string, v interface{}) { d[k] = v }

	o.WriteBuffer = pick(r, 1<<10, 2<<10, 4<<10, 8<<10, 16<<10, 64<<10)
	if c.LargeBuffers {
		o.WriteBuffer = pick(r, 16<<10, 32<<10, 64<<10)
	}
	set("WriteBuffer", o.WriteBuffer)
	o.CompactionTableSize = pick(r, 512, 1<<10, 2<<10, 4<<10, 16<<10)
	set("CompactionTableSize", o.CompactionTableSize)
	o.CompactionTotalSize = pick(r, 4<<10, 8<<10, 16<<10, 64<<10)
	set("CompactionTotalSize", o.CompactionTotalSize)
	o.CompactionTotalSizeMultiplier = float64(pick(r, 2, 4, 10))
	set("CompactionTotalSizeMultiplier", o.CompactionTotalSizeMultiplier)
	if r.Intn(4) == 0 {
		o.CompactionTableSizeMultiplier = 2
		set("CompactionTableSizeMultiplier", 2)
	}
	switch r.Intn(4) {
	case 0:
		o.CompactionL0Trigger, o.WriteL0SlowdownTrigger, o.WriteL0PauseTrigger = 1, 2, 3
	case 1:
		o.CompactionL0Trigger, o.WriteL0SlowdownTrigger, o.WriteL0PauseTrigger = 2, 4, 6
	case 2:
		o.CompactionL0Trigger, o.WriteL0SlowdownTrigger, o.WriteL0PauseTrigger = 4, 8, 12
	default:
		o.CompactionL0Trigger, o.WriteL0SlowdownTrigger, o.WriteL0PauseTrigger = 2, 6, 8
	}
	set("L0Triggers", []int{o.CompactionL0Trigger, o.WriteL0SlowdownTrigger, o.WriteL0PauseTrigger})
	if r.Intn(3) == 0 {
		o.CompactionGPOverlapsFactor = pick(r, 1, 2, 100)
		set("CompactionGPOverlapsFactor", o.CompactionGPOverlapsFactor)
	}
	if r.Intn(4) == 0 {
		o.CompactionExpandLimitFactor = pick(r, 1, 2, 100)
		set("CompactionExpandLimitFactor", o.CompactionExpandLimitFactor)
	}
	if r.Intn(4) == 0 {
		o.CompactionSourceLimitFactor = pick(r, 1, 3, 50)
		set("CompactionSourceLimitFactor", o.CompactionSourceLimitFactor)
	}
	o.BlockSize = pick(r, 64, 256, 1<<10, 4<<10)
	set("BlockSize", o.BlockSize)
	o.BlockRestartInterval = pick(r, 1, 2, 16)
	set("BlockRestartInterval", o.BlockRestartInterval)
	if r.Intn(2) == 0 {
		o.Compression = opt.NoCompression
		set("Compression", "none")
	} else {
		o.Compression = opt.SnappyCompression
		set("Compression", "snappy")
	}
	switch r.Intn(5) {
	case 0:
		set("Filter", "nil")
	default:
		bits := pick(r, 1, 4, 10, 16)
		o.Filter = filter.NewBloomFilter(bits)
		set("Filter", fmt.Sprintf("bloom%d", bits))
	}
	o.FilterBaseLg = pick(r, 5, 8, 11)
	set("FilterBaseLg", o.FilterBaseLg)
	switch r.Intn(3) {
	case 0:
		o.DisableBlockCache = true
		set("BlockCache", "off")
	case 1:
		o.BlockCacheCapacity = 4 << 10
		set("BlockCache", 4<<10)
	default:
		o.BlockCacheCapacity = 8 << 20
		set("BlockCache", 8<<20)
	}
	if r.Intn(4) == 0 {
		o.BlockCacheEvictRemoved = true
		set("BlockCacheEvictRemoved", true)
	}
	o.OpenFilesCacheCapacity = pick(r, 1, 4, 500)
	set("OpenFilesCacheCapacity", o.OpenFilesCacheCapacity)
	if r.Intn(3) == 0 {
		o.DisableBufferPool = true
		set("DisableBufferPool", true)
	}
	if r.Intn(2) == 0 {
		o.DisableSeeksCompaction = true
		set("DisableSeeksCompaction", true)
	} else {
		o.IteratorSamplingRate = 64
		set("IteratorSamplingRate", 64)
	}
	if r.Intn(3) == 0 {
		o.NoWriteMerge = true
		set("NoWriteMerge", true)
	}
	if r.Intn(4) == 0 {
		o.DisableLargeBatchTransaction = true
		set("DisableLargeBatchTransaction", true)
	}
	if !c.NoTinyManifest {
		switch r.Intn(4) {
		case 0:
			o.MaxManifestFileSize = 64
			set("MaxManifestFileSize", 64)
		case 1:
			o.MaxManifestFileSize = 1 << 10
			set("MaxManifestFileSize", 1<<10)
		}
	}
	o.DisableCompactionBackoff = true
	switch {
	case c.Comparer != nil:
		o.Comparer = c.Comparer
	case c.DefaultComparer:
		o.Comparer = comparer.DefaultComparer
	case c.OnlyBytewise:
		o.Comparer = []comparer.Comparer{comparer.DefaultComparer, Lazy{}, Unshortened{}}[r.Intn(3)]
	default:
		// The default comparer gets half of the weight.
		if r.Intn(2) == 0 {
			o.Comparer = comparer.DefaultComparer
		} else {
			o.Comparer = Comparers[r.Intn(len(Comparers))]
		}
	}
	if c.NonInjective && c.Comparer == nil && !c.DefaultComparer && !c.OnlyBytewise && r.Intn(8) == 0 {
		o.Comparer = ZeroPad{}
		o.Filter = nil // a bloom filter over raw key bytes cannot serve a comparer that identifies distinct byte strings
		set("Filter", "nil")
	}
	set("Comparer", o.Comparer.Name())
	return OptSet{O: o, Desc: d}
}

// TinyOptions is a fixed, very small configuration used by directed scenarios.
func TinyOptions() *opt.Options {
	return &opt.Options{
		WriteBuffer: 2 << 10, CompactionTableSize: 1 << 10, CompactionTotalSize: 4 << 10,
		CompactionTotalSizeMultiplier: 2, CompactionL0Trigger: 2, WriteL0SlowdownTrigger: 4,
		WriteL0PauseTrigger: 6, BlockSize: 256, BlockRestartInterval: 2,
		DisableCompactionBackoff: true, DisableSeeksCompaction: true,
	}
}
