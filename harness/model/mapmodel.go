package model

import (
	"bytes"
	"sort"

	"github.com/syndtr/goleveldb/leveldb/comparer"
)

// KV is one live pair.
type KV struct {
	K, V []byte
}

// Map is the ordered-map reference model M.
type Map struct {
	Cmp    comparer.Comparer
	m      map[string][]byte // canonical key -> value
	actual map[string]string // canonical key -> key bytes of the newest write (only for non-injective comparers)
	sorted []string          // cache of canonical keys in order; nil when stale
}

func (m *Map) ck(k []byte) string { return string(CanonKey(m.Cmp, k)) }

// akey returns the key bytes the DB presents for canonical key c: those of the newest write of the class.
func (m *Map) akey(c string) []byte {
	if m.actual != nil {
		return []byte(m.actual[c])
	}
	return []byte(c)
}

// NewMap creates an empty model ordered by cmp.
func NewMap(cmp comparer.Comparer) *Map {
	mm := &Map{Cmp: cmp, m: map[string][]byte{}}
	if _, ok := cmp.(Canonicalizer); ok {
		mm.actual = map[string]string{}
	}
	return mm
}

// Put stores a private copy of v under k.
func (m *Map) Put(k, v []byte) {
	c := m.ck(k)
	if _, ok := m.m[c]; !ok {
		m.sorted = nil
	}
	m.m[c] = append([]byte{}, v...)
	if m.actual != nil {
		m.actual[c] = string(k)
	}
}

// Delete removes k.
func (m *Map) Delete(k []byte) {
	c := m.ck(k)
	if _, ok := m.m[c]; ok {
		m.sorted = nil
		delete(m.m, c)
		if m.actual != nil {
			delete(m.actual, c)
		}
	}
}

// Get returns the value and whether the key is live.
func (m *Map) Get(k []byte) ([]byte, bool) {
	v, ok := m.m[m.ck(k)]
	return v, ok
}

// Len returns the number of live keys.
func (m *Map) Len() int { return len(m.m) }

// Clone returns an independent copy (values are immutable once stored, so they are shared).
func (m *Map) Clone() *Map {
	n := &Map{Cmp: m.Cmp, m: make(map[string][]byte, len(m.m))}
	for k, v := range m.m {
		n.m[k] = v
	}
	if m.actual != nil {
		n.actual = make(map[string]string, len(m.actual))
		for k, v := range m.actual {
			n.actual[k] = v
		}
	}
	if m.sorted != nil {
		n.sorted = m.sorted // immutable once built
	}
	return n
}

func (m *Map) keys() []string {
	if m.sorted == nil {
		ks := make([]string, 0, len(m.m))
		for k := range m.m {
			ks = append(ks, k)
		}
		sort.Slice(ks, func(i, j int) bool { return m.Cmp.Compare([]byte(ks[i]), []byte(ks[j])) < 0 })
		m.sorted = ks
	}
	return m.sorted
}

// Range returns the live pairs with start <= k < limit (nil = unbounded) in order.
func (m *Map) Range(start, limit []byte) []KV {
	ks := m.keys()
	lo := 0
	if start != nil {
		lo = sort.Search(len(ks), func(i int) bool { return m.Cmp.Compare([]byte(ks[i]), start) >= 0 })
	}
	hi := len(ks)
	if limit != nil {
		hi = sort.Search(len(ks), func(i int) bool { return m.Cmp.Compare([]byte(ks[i]), limit) >= 0 })
	}
	if hi < lo {
		hi = lo
	}
	out := make([]KV, 0, hi-lo)
	for _, k := range ks[lo:hi] {
		out = append(out, KV{K: m.akey(k), V: m.m[k]})
	}
	return out
}

// Keys returns all live keys in order.
func (m *Map) Keys() [][]byte {
	ks := m.keys()
	out := make([][]byte, len(ks))
	for i, k := range ks {
		out[i] = m.akey(k)
	}
	return out
}

// Cursor is the cursor model K over a sorted list of pairs.
// Position: -1 before first, 0..n-1 on an element, n after last.
type Cursor struct {
	L   []KV
	P   int
	Cmp comparer.Comparer
}

// NewCursor creates a cursor before the first element.
func NewCursor(l []KV, cmp comparer.Comparer) *Cursor { return &Cursor{L: l, P: -1, Cmp: cmp} }

func (c *Cursor) Valid() bool { return c.P >= 0 && c.P < len(c.L) }

func (c *Cursor) First() bool {
	if len(c.L) == 0 {
		c.P = len(c.L) // exhausted
		return false
	}
	c.P = 0
	return true
}

func (c *Cursor) Last() bool {
	if len(c.L) == 0 {
		c.P = -1
		return false
	}
	c.P = len(c.L) - 1
	return true
}

func (c *Cursor) Seek(k []byte) bool {
	c.P = sort.Search(len(c.L), func(i int) bool { return c.Cmp.Compare(c.L[i].K, k) >= 0 })
	return c.Valid()
}

func (c *Cursor) Next() bool {
	if c.P < len(c.L) {
		c.P++
	}
	return c.Valid()
}

func (c *Cursor) Prev() bool {
	if c.P > -1 {
		c.P--
	}
	return c.Valid()
}

func (c *Cursor) Key() []byte {
	if c.Valid() {
		return c.L[c.P].K
	}
	return nil
}

func (c *Cursor) Value() []byte {
	if c.Valid() {
		return c.L[c.P].V
	}
	return nil
}

// EqualBytes treats nil and empty as equal (the API returns empty non-nil slices).
func EqualBytes(a, b []byte) bool { return bytes.Equal(a, b) }
