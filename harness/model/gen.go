package model

import (
	"encoding/binary"
	"fmt"
	"math/rand"
)

// KeyGen produces hostile user keys: empty key, 0x00/0xff runs, keys that are
// prefixes of each other, neighbours (last byte +-1, appended byte), 1..64 bytes.
type KeyGen struct {
	Pool [][]byte
}

// NewKeyGen builds a pool of n distinct keys.
func NewKeyGen(r *rand.Rand, n int) *KeyGen {
	g := &KeyGen{}
	seen := map[string]bool{}
	add := func(k []byte) {
		if len(k) > 96 {
			k = k[:96]
		}
		if !seen[string(k)] {
			seen[string(k)] = true
			g.Pool = append(g.Pool, append([]byte{}, k...)) // never nil: the empty key is a real key
		}
	}
	add([]byte{})
	add([]byte{0})
	add([]byte{0xff})
	add([]byte{0xff, 0xff})
	add([]byte{0, 0})
	alpha := [][]byte{
		[]byte("abcdefghijklmnopqrstuvwxyz"),
		{0, 1, 0xfe, 0xff},
		{0, 0xff},
		[]byte("ab"),
	}
	for len(g.Pool) < n {
		var k []byte
		switch r.Intn(10) {
		case 0, 1, 2: // fresh random key
			al := alpha[r.Intn(len(alpha))]
			l := 1 + r.Intn(12)
			if r.Intn(8) == 0 {
				l = 1 + r.Intn(64)
			}
			k = make([]byte, l)
			for i := range k {
				k[i] = al[r.Intn(len(al))]
			}
		case 3, 4: // extension of an existing key (prefix relation)
			b := g.Pool[r.Intn(len(g.Pool))]
			k = append(append([]byte(nil), b...), byte(r.Intn(256)))
			if r.Intn(3) == 0 {
				k = append(k, 0xff)
			}
		case 5: // prefix of an existing key
			b := g.Pool[r.Intn(len(g.Pool))]
			if len(b) > 0 {
				k = append([]byte(nil), b[:r.Intn(len(b))]...)
			} else {
				k = []byte{byte(r.Intn(256))}
			}
		case 6: // neighbour: last byte +-1
			b := g.Pool[r.Intn(len(g.Pool))]
			k = append([]byte(nil), b...)
			if len(k) > 0 {
				if r.Intn(2) == 0 {
					k[len(k)-1]++
				} else {
					k[len(k)-1]--
				}
			} else {
				k = []byte{1}
			}
		case 7: // runs
			l := 1 + r.Intn(10)
			c := byte(0)
			if r.Intn(2) == 0 {
				c = 0xff
			}
			k = make([]byte, l)
			for i := range k {
				k[i] = c
			}
			if r.Intn(2) == 0 {
				k[len(k)-1] = byte(r.Intn(256))
			}
		case 8: // structured "user-like" key
			k = []byte(fmt.Sprintf("k%05d", r.Intn(100000)))
		default: // 8-byte big-endian number (common in applications)
			k = make([]byte, 8)
			binary.BigEndian.PutUint64(k, uint64(r.Intn(1<<20)))
		}
		add(k)
	}
	return g
}

// Inflate turns every pool key into a long key (the key, a 0x01 separator, lo..hi bytes of filler), keeping the
// keys distinct and their relative order unpredictable. With keys of a few KiB a manifest record (which
// carries the smallest and largest key of each table it adds) regularly spans a 32 KiB journal block.
func (g *KeyGen) Inflate(r *rand.Rand, lo, hi int) {
	seen := map[string]bool{}
	var pool [][]byte
	for _, k := range g.Pool {
		n := lo + r.Intn(hi-lo+1)
		nk := make([]byte, 0, len(k)+1+n)
		nk = append(append(nk, k...), 1)
		for j := 0; j < n; j++ {
			nk = append(nk, 'z')
		}
		if !seen[string(nk)] {
			seen[string(nk)] = true
			pool = append(pool, nk)
		}
	}
	g.Pool = pool
}

// AddPadded adds, for a third of the pool keys, variants with one or two trailing 0x00 bytes (the same user
// key under the ZeroPad comparer).
func (g *KeyGen) AddPadded(r *rand.Rand) {
	seen := map[string]bool{}
	for _, k := range g.Pool {
		seen[string(k)] = true
	}
	n := len(g.Pool)
	for j := 0; j < n; j++ {
		if r.Intn(3) != 0 {
			continue
		}
		k := append(append([]byte{}, g.Pool[j]...), 0)
		if r.Intn(2) == 0 {
			k = append(k, 0)
		}
		if !seen[string(k)] {
			seen[string(k)] = true
			g.Pool = append(g.Pool, k)
		}
	}
}

// Pick returns one pool key (callers must not modify it).
func (g *KeyGen) Pick(r *rand.Rand) []byte { return g.Pool[r.Intn(len(g.Pool))] }

// Probe returns a key that is usually NOT in the pool but close to one.
func (g *KeyGen) Probe(r *rand.Rand) []byte {
	b := g.Pool[r.Intn(len(g.Pool))]
	k := append([]byte(nil), b...)
	switch r.Intn(4) {
	case 0:
		k = append(k, 0)
	case 1:
		k = append(k, 0xff, 0xff, 0x7f)
	case 2:
		if len(k) > 0 {
			k[len(k)-1] ^= 0x55
			k = append(k, 'Z')
		}
	default:
		k = append([]byte("~~probe~~"), k...)
	}
	return k
}

// Value builds a value that identifies the write that produced it: a 12-byte id
// (client, op, sub) followed by a deterministic filler of the requested length.
// size < 12 yields a truncated id (still deterministic); size 0 is the empty value.
func Value(client, op, sub uint32, size int) []byte {
	id := make([]byte, 12)
	binary.BigEndian.PutUint32(id[0:], client)
	binary.BigEndian.PutUint32(id[4:], op)
	binary.BigEndian.PutUint32(id[8:], sub)
	if size <= 12 {
		return id[:size]
	}
	v := make([]byte, size)
	copy(v, id)
	x := uint32(client*2654435761 ^ op*40503 ^ sub)
	for i := 12; i < size; i++ {
		x = x*1664525 + 1013904223
		// Low-entropy filler so snappy really compresses some blocks.
		v[i] = "abcdefgh"[x>>29]
	}
	return v
}

// ValueSize draws a value size: mostly small, sometimes empty, sometimes larger
// than a block, rarely larger than the write buffer.
func ValueSize(r *rand.Rand, blockSize, writeBuffer int) int {
	switch x := r.Intn(100); {
	case x < 6:
		return 0
	case x < 70:
		return 12 + r.Intn(40)
	case x < 90:
		return 12 + r.Intn(300)
	case x < 97:
		return blockSize + r.Intn(blockSize+1)
	case x < 99:
		return 12 + r.Intn(4*blockSize+1)
	default:
		if writeBuffer > 0 && writeBuffer <= 64<<10 {
			return writeBuffer + r.Intn(1024)
		}
		return 12 + r.Intn(2000)
	}
}
