// Package model holds the reference models and generators shared by the workers:
// comparers, hostile key/value generators, the ordered-map model M, the cursor
// model K and the option matrix.
package model

import (
	"bytes"

	"github.com/syndtr/goleveldb/leveldb/comparer"
)

// All comparers here except ZeroPad are injective: Compare(a,b)==0 iff bytes.Equal(a,b).

// Reverse orders keys in descending bytewise order. Helpers return nil ("use a").
type Reverse struct{}

func (Reverse) Compare(a, b []byte) int         { return bytes.Compare(b, a) }
func (Reverse) Name() string                    { return "verif.Reverse" }
func (Reverse) Separator(dst, a, b []byte) []byte { return nil }
func (Reverse) Successor(dst, b []byte) []byte  { return nil }

// Shortlex orders by length first, then bytewise.
type Shortlex struct{}

func (Shortlex) Compare(a, b []byte) int {
	if len(a) != len(b) {
		if len(a) < len(b) {
			return -1
		}
		return 1
	}
	return bytes.Compare(a, b)
}
func (Shortlex) Name() string                    { return "verif.Shortlex" }
func (Shortlex) Separator(dst, a, b []byte) []byte { return nil }
func (Shortlex) Successor(dst, b []byte) []byte  { return nil }

// Lazy is bytewise order whose helpers never shorten (return nil).
type Lazy struct{}

func (Lazy) Compare(a, b []byte) int         { return bytes.Compare(a, b) }
func (Lazy) Name() string                    { return "verif.Lazy" }
func (Lazy) Separator(dst, a, b []byte) []byte { return nil }
func (Lazy) Successor(dst, b []byte) []byte  { return nil }

// Unshortened is bytewise order whose helpers return an unshortened copy of a
// (legal: a <= sep < b whenever a < b; succ(b) = b >= b).
type Unshortened struct{}

func (Unshortened) Compare(a, b []byte) int { return bytes.Compare(a, b) }
func (Unshortened) Name() string            { return "verif.Unshortened" }
func (Unshortened) Separator(dst, a, b []byte) []byte {
	return append(dst, a...)
}
func (Unshortened) Successor(dst, b []byte) []byte { return append(dst, b...) }

// ReverseShortening is descending bytewise order with real shortening helpers:
// Separator(a,b) with a<b in this order means a >bytes b; a valid separator s has
// a >=bytes s >bytes b. We drop a's tail after the first differing byte when
// that keeps s >bytes b.
type ReverseShortening struct{}

func (ReverseShortening) Compare(a, b []byte) int { return bytes.Compare(b, a) }
func (ReverseShortening) Name() string            { return "verif.ReverseShortening" }
func (ReverseShortening) Separator(dst, a, b []byte) []byte {
	// order: x before y iff x >bytes y. Need a <=ord s <ord b, i.e. a >=bytes s >bytes b.
	n := len(a)
	if len(b) < n {
		n = len(b)
	}
	i := 0
	for ; i < n && a[i] == b[i]; i++ {
	}
	if i >= n {
		return nil
	}
	if a[i] > b[i] && i+1 < len(a) {
		// s = a[:i+1]: prefix of a => s <=bytes a; s[i] > b[i] => s >bytes b.
		return append(dst, a[:i+1]...)
	}
	return nil
}
func (ReverseShortening) Successor(dst, b []byte) []byte {
	// need s >=ord b i.e. s <=bytes b: a strict prefix works.
	if len(b) > 1 {
		return append(dst, b[:1]...)
	}
	return nil
}

// Comparers is the list used by the option matrix. Index 0 is the default.
// Canonicalizer is implemented by comparers that identify distinct byte strings (Compare(a,b)==0 although
// !bytes.Equal(a,b)), like the numeric comparer of the repository's own TestDB_CustomComparer: Canon maps
// every member of an equivalence class to the same representative.
type Canonicalizer interface {
	Canon(k []byte) []byte
}

// CanonKey returns the class representative of k under cmp (k itself for injective comparers).
func CanonKey(cmp comparer.Comparer, k []byte) []byte {
	if c, ok := cmp.(Canonicalizer); ok {
		return c.Canon(k)
	}
	return k
}

// ZeroPad is bytewise order on keys with their trailing 0x00 bytes stripped: "a", "a\x00" and "a\x00\x00"
// are one user key. Not part of Comparers: workers opt in (OptConstraints.NonInjective)
// because a bloom filter over the raw key bytes is not usable with such a comparer.
type ZeroPad struct{}

func (ZeroPad) Canon(k []byte) []byte {
	n := len(k)
	for n > 0 && k[n-1] == 0 {
		n--
	}
	return k[:n]
}
func (z ZeroPad) Compare(a, b []byte) int           { return bytes.Compare(z.Canon(a), z.Canon(b)) }
func (ZeroPad) Name() string                      { return "verif.ZeroPad" }

// Separator and Successor return the stripped form of their first argument when that is shorter. Both are
// legal (the result compares equal to the argument: a <= sep < b and succ >= b hold), and both are results
// that the internal-key comparer must refuse to shorten to.
func (z ZeroPad) Separator(dst, a, b []byte) []byte {
	if t := z.Canon(a); len(t) < len(a) {
		return append(dst, t...)
	}
	return nil
}
func (z ZeroPad) Successor(dst, b []byte) []byte {
	if t := z.Canon(b); len(t) < len(b) {
		return append(dst, t...)
	}
	return nil
}

var Comparers = []comparer.Comparer{
	comparer.DefaultComparer, Reverse{}, Shortlex{}, Lazy{}, Unshortened{}, ReverseShortening{},
}

// ComparerByName finds a comparer of the matrix by its Name().
func ComparerByName(n string) comparer.Comparer {
	if n == (ZeroPad{}).Name() {
		return ZeroPad{}
	}
	for _, c := range Comparers {
		if c.Name() == n {
			return c
		}
	}
	return nil
}
