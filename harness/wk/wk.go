// Package wk is the worker kit shared by every property worker: command line,
// sharding, seeded PRNGs, thread-safe coverage counters, violation witnesses and
// the JSON-lines protocol spoken to tools/check.py.
package wk

import (
	"bufio"
	"crypto/sha1"
	"encoding/hex"
	"encoding/json"
	"flag"
	"fmt"
	"math/rand"
	"os"
	"path/filepath"
	"runtime/debug"
	"sort"
	"strings"
	"sync"
	"sync/atomic"
)

// Ctx is handed to the worker's run function.
type Ctx struct {
	Prop      string
	Tier      string // quick | thorough
	Seed      int64
	Shard     int
	NShards   int
	ReplayDir string // where witnesses are written
	Only      int    // >= 0: run only this case (replay)
	Race      bool   // built with -race (reduced case lists)
	Extra     string // free-form argument from check.py

	mu        sync.Mutex
	counters  map[string]int64
	maxes     map[string]int64
	distinct  map[string]struct{}
	dsets     map[string]map[string]struct{}
	samples   []interface{}
	evals     int64
	nviol     int64
	ninconc   int64
	out       *bufio.Writer
	caseFile  *os.File
	violSeen  map[string]int
	maxSample int
}

type line map[string]interface{}

func (c *Ctx) emit(l line) {
	b, err := json.Marshal(l)
	if err != nil {
		b, _ = json.Marshal(line{"t": "error", "msg": "marshal: " + err.Error()})
	}
	c.mu.Lock()
	c.out.Write(b)
	c.out.WriteByte('\n')
	c.out.Flush()
	c.mu.Unlock()
}

// Quick reports whether the quick tier was requested.
func (c *Ctx) Quick() bool { return c.Tier != "thorough" }

// Pick returns q in the quick tier and t in the thorough tier; race builds get a reduced list.
func (c *Ctx) Pick(q, t int) int {
	n := q
	if !c.Quick() {
		n = t
	}
	return n
}

// Mine reports whether case i belongs to this shard (and to the replay filter).
func (c *Ctx) Mine(i int) bool {
	if c.Only >= 0 {
		return i == c.Only
	}
	return i%c.NShards == c.Shard
}

// Rand returns the PRNG of case i: a pure function of (VERIF_SEED, property, i).
func (c *Ctx) Rand(i int) *rand.Rand {
	return rand.New(rand.NewSource(c.CaseSeed(i)))
}

// CaseSeed derives the seed of case i.
func (c *Ctx) CaseSeed(i int) int64 {
	h := sha1.Sum([]byte(fmt.Sprintf("%s/%d/%d", c.Prop, c.Seed, i)))
	var s int64
	for k := 0; k < 8; k++ {
		s = s<<8 | int64(h[k])
	}
	if s < 0 {
		s = -s
	}
	return s
}

// Begin records the case about to run in a side file, so that the culprit of a
// process-fatal error is known.
func (c *Ctx) Begin(i int, desc string) {
	c.mu.Lock()
	if c.caseFile != nil {
		fmt.Fprintf(c.caseFile, "case=%d %s\n", i, desc)
	}
	c.mu.Unlock()
}

// Eval counts one evaluation (a generated case that was executed and judged).
func (c *Ctx) Eval() { atomic.AddInt64(&c.evals, 1) }

// Evals counts n evaluations.
func (c *Ctx) Evals(n int) { atomic.AddInt64(&c.evals, int64(n)) }

// Count adds n to a named coverage counter.
func (c *Ctx) Count(name string, n int64) {
	c.mu.Lock()
	c.counters[name] += n
	c.mu.Unlock()
}

// Max keeps the maximum of a named gauge.
func (c *Ctx) Max(name string, v int64) {
	c.mu.Lock()
	if old, ok := c.maxes[name]; !ok || v > old {
		c.maxes[name] = v
	}
	c.mu.Unlock()
}

// Nontrivial registers a distinct non-trivial case; key must identify the case
// (it is deduplicated within the shard; shards own disjoint cases).
func (c *Ctx) Nontrivial(key string) {
	c.mu.Lock()
	c.distinct[key] = struct{}{}
	c.mu.Unlock()
}

// Distinct adds key to a named set whose cardinality is reported as a counter
// "<set>.distinct" (e.g. distinct event-order signatures).
func (c *Ctx) Distinct(set, key string) {
	c.mu.Lock()
	m := c.dsets[set]
	if m == nil {
		m = map[string]struct{}{}
		c.dsets[set] = m
	}
	if len(m) < 200000 {
		m[key] = struct{}{}
	}
	c.mu.Unlock()
}

// Sample keeps up to a few written-out cases for the evidence file.
func (c *Ctx) Sample(v interface{}) {
	c.mu.Lock()
	if len(c.samples) < c.maxSample {
		c.samples = append(c.samples, v)
	}
	c.mu.Unlock()
}

// WantSample reports whether another sample would be kept.
func (c *Ctx) WantSample() bool {
	c.mu.Lock()
	defer c.mu.Unlock()
	return len(c.samples) < c.maxSample
}

// Inconclusive records an item that could not be judged (never a verdict).
func (c *Ctx) Inconclusive(reason string) {
	atomic.AddInt64(&c.ninconc, 1)
	c.Count("inconclusive:"+reason, 1)
}

// Violation records a violation with a witness written to disk. sig is the
// deterministic signature used by the known-findings filter.
func (c *Ctx) Violation(caseIdx int, sig, msg string, witness interface{}) {
	c.mu.Lock()
	c.violSeen[sig]++
	n := c.violSeen[sig]
	c.mu.Unlock()
	atomic.AddInt64(&c.nviol, 1)
	if n > 5 {
		// Keep counting, stop writing witnesses for the same signature.
		c.emit(line{"t": "violation", "sig": sig, "msg": msg, "case": caseIdx, "replay": "", "dup": true})
		return
	}
	path := ""
	if c.ReplayDir != "" {
		os.MkdirAll(c.ReplayDir, 0o755)
		name := fmt.Sprintf("%s-s%d-c%d-%d.json", sanitize(sig), c.Seed, caseIdx, n)
		path = filepath.Join(c.ReplayDir, name)
		w := line{
			"property": c.Prop, "tier": c.Tier, "seed": c.Seed, "case": caseIdx,
			"signature": sig, "message": msg, "witness": witness, "extra": c.Extra,
		}
		b, err := json.MarshalIndent(w, "", " ")
		if err != nil {
			b = []byte(fmt.Sprintf(`{"property":%q,"seed":%d,"case":%d,"signature":%q,"message":%q}`, c.Prop, c.Seed, caseIdx, sig, msg))
		}
		os.WriteFile(path, b, 0o644)
	}
	c.emit(line{"t": "violation", "sig": sig, "msg": msg, "case": caseIdx, "replay": path})
}

// Violations returns the number of violations reported so far.
func (c *Ctx) Violations() int64 { return atomic.LoadInt64(&c.nviol) }

func sanitize(s string) string {
	var b strings.Builder
	for _, r := range s {
		switch {
		case r >= 'a' && r <= 'z', r >= 'A' && r <= 'Z', r >= '0' && r <= '9', r == '-', r == '_', r == '.':
			b.WriteRune(r)
		default:
			b.WriteByte('_')
		}
	}
	out := b.String()
	if len(out) > 80 {
		h := sha1.Sum([]byte(s))
		out = out[:60] + "-" + hex.EncodeToString(h[:6])
	}
	return out
}

// Guard runs f and turns a panic into a violation of the calling property with
// the panic value and stack as witness. It returns true if f panicked.
func (c *Ctx) Guard(caseIdx int, what string, f func()) (panicked bool) {
	defer func() {
		if x := recover(); x != nil {
			panicked = true
			st := string(debug.Stack())
			c.Violation(caseIdx, "panic:"+what+":"+PanicSite(st), fmt.Sprintf("panic in %s: %v", what, x), map[string]interface{}{
				"panic": fmt.Sprint(x), "stack": strings.Split(st, "\n"),
			})
		}
	}()
	f()
	return false
}

// PanicSite extracts the innermost goleveldb function of a stack trace (function
// name only, no line numbers), for use in signatures.
func PanicSite(stack string) string {
	lines := strings.Split(stack, "\n")
	seenPanic := false
	for _, l := range lines {
		if strings.HasPrefix(l, "panic(") {
			seenPanic = true
			continue
		}
		if !seenPanic {
			continue
		}
		if strings.Contains(l, "github.com/syndtr/goleveldb/") && !strings.HasPrefix(l, "\t") {
			f := l
			if i := strings.LastIndex(f, "("); i > 0 {
				f = f[:i]
			}
			f = strings.TrimPrefix(f, "github.com/syndtr/goleveldb/")
			return f
		}
	}
	for _, l := range lines {
		if strings.Contains(l, "github.com/syndtr/goleveldb/") && !strings.HasPrefix(l, "\t") {
			f := l
			if i := strings.LastIndex(f, "("); i > 0 {
				f = f[:i]
			}
			return strings.TrimPrefix(f, "github.com/syndtr/goleveldb/")
		}
	}
	return "unknown"
}

func (c *Ctx) finish() {
	c.mu.Lock()
	cnt := map[string]int64{}
	for k, v := range c.counters {
		cnt[k] = v
	}
	mx := map[string]int64{}
	for k, v := range c.maxes {
		mx[k] = v
	}
	ds := map[string][]string{}
	for k, m := range c.dsets {
		cnt[k+".distinct_in_shard"] = int64(len(m))
		// Ship hashed members so the orchestrator can union across shards.
		if len(m) <= 20000 {
			l := make([]string, 0, len(m))
			for s := range m {
				h := sha1.Sum([]byte(s))
				l = append(l, hex.EncodeToString(h[:8]))
			}
			sort.Strings(l)
			ds[k] = l
		}
	}
	nd := len(c.distinct)
	samples := c.samples
	c.mu.Unlock()
	c.emit(line{
		"t": "stats", "counters": cnt, "maxes": mx, "dsets": ds,
		"evaluations": atomic.LoadInt64(&c.evals), "distinct_nontrivial": nd,
		"samples": samples, "violations": atomic.LoadInt64(&c.nviol),
		"inconclusive": atomic.LoadInt64(&c.ninconc),
	})
	c.emit(line{"t": "done"})
}

// Main parses the worker command line, runs f and emits the final statistics.
func Main(prop string, f func(c *Ctx)) {
	var (
		tier    = flag.String("tier", "quick", "quick|thorough")
		seed    = flag.Int64("seed", 1, "VERIF_SEED")
		shard   = flag.Int("shard", 0, "shard index")
		nshards = flag.Int("nshards", 1, "number of shards")
		rdir    = flag.String("replaydir", "", "directory for witnesses")
		only    = flag.Int("only", -1, "run only this case")
		race    = flag.Bool("race", false, "race build: reduced case list")
		cases   = flag.String("casefile", "", "side file naming the case about to run")
		extra   = flag.String("extra", "", "free-form")
		nsample = flag.Int("samples", 2, "samples kept per shard")
	)
	flag.Parse()
	c := &Ctx{
		Prop: prop, Tier: *tier, Seed: *seed, Shard: *shard, NShards: *nshards,
		ReplayDir: *rdir, Only: *only, Race: *race, Extra: *extra,
		counters: map[string]int64{}, maxes: map[string]int64{}, distinct: map[string]struct{}{},
		dsets: map[string]map[string]struct{}{}, violSeen: map[string]int{},
		out: bufio.NewWriter(os.Stdout), maxSample: *nsample,
	}
	if *cases != "" {
		fh, err := os.Create(*cases)
		if err == nil {
			c.caseFile = fh
			defer fh.Close()
		}
	}
	if c.NShards < 1 {
		c.NShards = 1
	}
	f(c)
	c.finish()
}
