// Worker for C14: the in-memory buffer (leveldb/memdb) is an ordered map, safe
// under concurrent readers.
//
// main.go: case list, key spaces, the local sorted-map model, the hang inspector.
// seq.go:  sequential programs compared with the model (cases 0..).
// conc.go: one writer + many readers (cases concBase..).
package main

import (
	"encoding/hex"
	"fmt"
	"math/rand"
	"os"
	"runtime"
	"sort"
	"strings"
	"sync/atomic"
	"time"

	"github.com/syndtr/goleveldb/leveldb"
	"github.com/syndtr/goleveldb/leveldb/comparer"

	"verif/model"
	"verif/wk"
)

const concBase = 100000

func main() { wk.Main("C14", run) }

func run(c *wk.Ctx) {
	go inspector(c)
	nseq := c.Pick(720, 6000)
	nconc := c.Pick(768, 3600)
	if c.Race {
		nseq = 0
		nconc = c.Pick(64, 480)
	}
	for i := 0; i < nseq; i++ {
		if c.Mine(i) {
			curCase.Store(int64(i))
			seqCase(c, i)
		}
	}
	for j := 0; j < nconc; j++ {
		i := concBase + j
		if c.Mine(i) {
			curCase.Store(int64(i))
			if !concCase(c, i) {
				// goroutines of an aborted case may still be stuck inside memdb:
				// nothing more can be run in this process.
				break
			}
		}
	}
	inspectorOff.Store(true)
}

// ---------------------------------------------------------------------------
// Hang inspector. Every return of a memdb call bumps `beat`. If no call returns
// for a long wall-clock time the inspector takes two goroutine dumps; only if a
// goroutine sits inside a memdb function in both (memdb has no unbounded loop on
// a well-formed list) is that reported — the clock triggers inspection, the
// stacks decide.

var (
	beat         atomic.Int64
	curCase      atomic.Int64
	inspectorOff atomic.Bool
)

func tick() { beat.Add(1) }

const memdbFrame = "github.com/syndtr/goleveldb/leveldb/memdb.(*"

func memdbSites(dump string) map[string]bool {
	out := map[string]bool{}
	for _, g := range strings.Split(dump, "\n\n") {
		for _, l := range strings.Split(g, "\n") {
			if strings.HasPrefix(l, memdbFrame) {
				f := l
				if k := strings.LastIndex(f, "("); k > 0 {
					f = f[:k]
				}
				out[strings.TrimPrefix(f, "github.com/syndtr/goleveldb/leveldb/")] = true
				break // innermost memdb frame of this goroutine
			}
		}
	}
	return out
}

func allStacks() string {
	buf := make([]byte, 1<<20)
	n := runtime.Stack(buf, true)
	return string(buf[:n])
}

func inspector(c *wk.Ctx) {
	last := beat.Load()
	still := 0
	for !inspectorOff.Load() {
		time.Sleep(2 * time.Second)
		now := beat.Load()
		if now != last {
			last, still = now, 0
			continue
		}
		still++
		if still < 90 { // 180 s without a single memdb call returning
			continue
		}
		d1 := allStacks()
		time.Sleep(5 * time.Second)
		if beat.Load() != last {
			still = 0
			continue
		}
		d2 := allStacks()
		s1, s2 := memdbSites(d1), memdbSites(d2)
		var both []string
		for s := range s1 {
			if s2[s] {
				both = append(both, s)
			}
		}
		sort.Strings(both)
		if len(both) == 0 {
			still = 0
			continue // nothing inside memdb: not ours to judge
		}
		c.Violation(int(curCase.Load()), "hang:"+both[0],
			"no memdb call returned for 180 s; goroutines are inside memdb in two dumps 5 s apart",
			map[string]interface{}{"sites": both, "stacks": strings.Split(d2, "\n")})
		os.Exit(3)
	}
}

// ---------------------------------------------------------------------------
// Key spaces: user keys under one of the matrix comparers, or internal keys
// under the internal comparer (what the DB stores in its buffers).

type space struct {
	name     string
	cmp      comparer.Comparer
	internal bool
	kg       *model.KeyGen
}

func pickSpace(r *rand.Rand, nkeys int) (space, [][]byte) {
	u := model.Comparers[r.Intn(len(model.Comparers))]
	if r.Intn(3) != 0 {
		kg := model.NewKeyGen(r, nkeys)
		return space{name: u.Name(), cmp: u, kg: kg}, kg.Pool
	}
	nu := nkeys/(1+r.Intn(8)) + 5
	kg := model.NewKeyGen(r, nu)
	sp := space{name: "internal/" + u.Name(), cmp: leveldb.VerifInternalComparer(u), internal: true, kg: kg}
	seen := map[string]bool{}
	var pool [][]byte
	for len(pool) < nkeys {
		k := leveldb.VerifMakeInternalKey(kg.Pick(r), uint64(r.Intn(4*nkeys+1)), uint(r.Intn(2)))
		if !seen[string(k)] {
			seen[string(k)] = true
			pool = append(pool, k)
		}
	}
	return sp, pool
}

// probe returns a key that is usually not in the pool.
func (sp *space) probe(r *rand.Rand) []byte {
	if !sp.internal {
		return sp.kg.Probe(r)
	}
	u := sp.kg.Pick(r)
	if r.Intn(2) == 0 {
		u = sp.kg.Probe(r)
	}
	return leveldb.VerifMakeInternalKey(u, uint64(r.Intn(1<<16)), uint(r.Intn(2)))
}

// ---------------------------------------------------------------------------
// Local sorted-map model (keys kept sorted by binary-search insertion).

type smap struct {
	cmp  comparer.Comparer
	keys [][]byte
	vals map[string][]byte
	size int // sum of len(key)+len(value) over live entries
}

func newSmap(cmp comparer.Comparer) *smap { return &smap{cmp: cmp, vals: map[string][]byte{}} }

// search returns the first index whose key is >= k.
func (m *smap) search(k []byte) int {
	return sort.Search(len(m.keys), func(i int) bool { return m.cmp.Compare(m.keys[i], k) >= 0 })
}

func (m *smap) put(k, v []byte) (overwrite bool, oldLen int) {
	v = append([]byte{}, v...)
	if old, ok := m.vals[string(k)]; ok {
		m.size += len(v) - len(old)
		m.vals[string(k)] = v
		return true, len(old)
	}
	k = append([]byte{}, k...)
	p := m.search(k)
	m.keys = append(m.keys, nil)
	copy(m.keys[p+1:], m.keys[p:])
	m.keys[p] = k
	m.vals[string(k)] = v
	m.size += len(k) + len(v)
	return false, 0
}

func (m *smap) del(k []byte) bool {
	old, ok := m.vals[string(k)]
	if !ok {
		return false
	}
	p := m.search(k)
	m.keys = append(m.keys[:p], m.keys[p+1:]...)
	delete(m.vals, string(k))
	m.size -= len(k) + len(old)
	return true
}

func (m *smap) bounds(start, limit []byte) (lo, hi int) {
	lo, hi = 0, len(m.keys)
	if start != nil {
		lo = m.search(start)
	}
	if limit != nil {
		hi = m.search(limit)
	}
	if hi < lo {
		hi = lo
	}
	return
}

func (m *smap) rng(start, limit []byte) []model.KV {
	lo, hi := m.bounds(start, limit)
	out := make([]model.KV, 0, hi-lo)
	for _, k := range m.keys[lo:hi] {
		out = append(out, model.KV{K: k, V: m.vals[string(k)]})
	}
	return out
}

// recount recomputes Size from scratch (independent of the incremental field).
func (m *smap) recount() int {
	s := 0
	for _, k := range m.keys {
		s += len(k) + len(m.vals[string(k)])
	}
	return s
}

func hx(b []byte) string {
	if b == nil {
		return "<nil>"
	}
	return hex.EncodeToString(b)
}

func errStr(e error) string {
	if e == nil {
		return "<nil>"
	}
	return e.Error()
}

var _ = fmt.Sprint
