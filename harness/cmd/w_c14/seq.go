package main

import (
	"bytes"
	"fmt"
	"math/rand"

	"github.com/syndtr/goleveldb/leveldb/iterator"
	"github.com/syndtr/goleveldb/leveldb/memdb"
	"github.com/syndtr/goleveldb/leveldb/util"

	"verif/model"
	"verif/wk"
)

type seqRun struct {
	c       *wk.Ctx
	i       int
	r       *rand.Rand
	sp      space
	pool    [][]byte
	db      *memdb.DB
	m       *smap
	initCap int
	nops    int
	opn     int
	trace   []string
	st      map[string]int64
	bad     bool
	maxLen  int
}

func (s *seqRun) log(f string, a ...interface{}) {
	if len(s.trace) >= 24 {
		s.trace = s.trace[1:]
	}
	s.trace = append(s.trace, fmt.Sprintf("#%d ", s.opn)+fmt.Sprintf(f, a...))
}

func (s *seqRun) fail(sig, msg string) {
	if s.bad {
		return
	}
	s.bad = true
	s.c.Violation(s.i, "seq:"+sig, msg, map[string]interface{}{
		"case": s.i, "space": s.sp.name, "nkeys": len(s.pool), "nops": s.nops, "capacity": s.initCap,
		"op_index": s.opn, "model_len": len(s.m.keys), "model_size": s.m.size, "last_ops": s.trace,
	})
}

func (s *seqRun) key(probePct int) []byte {
	if s.r.Intn(100) < probePct {
		return s.sp.probe(s.r)
	}
	return s.pool[s.r.Intn(len(s.pool))]
}

func (s *seqRun) valueSize() int {
	switch x := s.r.Intn(100); {
	case x < 8:
		return 0
	case x < 18:
		return 1 + s.r.Intn(11)
	case x < 78:
		return 12 + s.r.Intn(40)
	case x < 98:
		return 12 + s.r.Intn(400)
	default:
		return 2000 + s.r.Intn(3000)
	}
}

func scribble(b []byte) {
	for i := range b {
		b[i] = 0xaa
	}
}

func (s *seqRun) lenSize(after string) {
	if n := s.db.Len(); n != len(s.m.keys) {
		s.fail("len", fmt.Sprintf("after %s: Len()=%d, model has %d live keys", after, n, len(s.m.keys)))
	}
	if z := s.db.Size(); z != s.m.size {
		s.fail("size", fmt.Sprintf("after %s: Size()=%d, sum of len(key)+len(value) over live entries is %d", after, z, s.m.size))
	}
	tick()
}

func (s *seqRun) put() {
	k := s.key(10)
	v := model.Value(1, uint32(s.opn), 0, s.valueSize())
	kc, vc := append([]byte{}, k...), append([]byte{}, v...)
	err := s.db.Put(kc, vc)
	scribble(kc) // "It is safe to modify the contents of the arguments after Put returns."
	scribble(vc)
	ow, oldLen := s.m.put(k, v)
	s.log("Put(%s, %d bytes) overwrite=%v", hx(k), len(v), ow)
	switch {
	case !ow:
		s.st["put_insert"]++
	case oldLen != len(v):
		s.st["put_overwrite_other_length"]++
	default:
		s.st["put_overwrite_same_length"]++
	}
	if err != nil {
		s.fail("put", "Put returned "+err.Error())
	}
	if len(s.m.keys) > s.maxLen {
		s.maxLen = len(s.m.keys)
	}
	s.lenSize("Put")
}

func (s *seqRun) del() {
	k := s.key(15)
	kc := append([]byte{}, k...)
	err := s.db.Delete(kc)
	scribble(kc)
	was := s.m.del(k)
	s.log("Delete(%s) present=%v -> %s", hx(k), was, errStr(err))
	if was {
		s.st["delete_present"]++
		if err != nil {
			s.fail("delete", "Delete of a live key returned "+err.Error())
		}
	} else {
		s.st["delete_absent"]++
		if err != memdb.ErrNotFound {
			s.fail("delete", "Delete of an absent key returned "+errStr(err)+", want ErrNotFound")
		}
	}
	s.lenSize("Delete")
}

func (s *seqRun) get() {
	k := s.key(20)
	v, err := s.db.Get(k)
	tick()
	want, ok := s.m.vals[string(k)]
	s.log("Get(%s) -> %d bytes, %s", hx(k), len(v), errStr(err))
	s.st["get"]++
	if ok {
		s.st["get_hit"]++
		if err != nil || !bytes.Equal(v, want) {
			s.fail("get", fmt.Sprintf("Get(%s) = (%s, %s), model holds %s", hx(k), hx(v), errStr(err), hx(want)))
		}
	} else if err != memdb.ErrNotFound {
		s.fail("get", fmt.Sprintf("Get(%s) of an absent key = (%s, %s), want ErrNotFound", hx(k), hx(v), errStr(err)))
	}
}

func (s *seqRun) contains() {
	k := s.key(20)
	got := s.db.Contains(k)
	tick()
	_, want := s.m.vals[string(k)]
	s.log("Contains(%s) -> %v", hx(k), got)
	s.st["contains"]++
	if got != want {
		s.fail("contains", fmt.Sprintf("Contains(%s) = %v, model says %v", hx(k), got, want))
	}
}

func (s *seqRun) find() {
	k := s.key(40)
	rk, v, err := s.db.Find(k)
	tick()
	s.log("Find(%s) -> %s, %d bytes, %s", hx(k), hx(rk), len(v), errStr(err))
	s.st["find"]++
	p := s.m.search(k)
	if p == len(s.m.keys) {
		s.st["find_past_end"]++
		if err != memdb.ErrNotFound {
			s.fail("find", fmt.Sprintf("Find(%s) = (%s, %s, %s), no key >= it is live", hx(k), hx(rk), hx(v), errStr(err)))
		}
		return
	}
	wk_ := s.m.keys[p]
	if !bytes.Equal(wk_, k) {
		s.st["find_inexact"]++
	}
	if err != nil || !bytes.Equal(rk, wk_) || !bytes.Equal(v, s.m.vals[string(wk_)]) {
		s.fail("find", fmt.Sprintf("Find(%s) = (%s, %s, %s), smallest live key >= it is %s", hx(k), hx(rk), hx(v), errStr(err), hx(wk_)))
	}
}

func (s *seqRun) meta() {
	s.st["len_size_free_capacity"]++
	s.lenSize("nothing")
	f, cp := s.db.Free(), s.db.Capacity()
	tick()
	if f < 0 || f > cp {
		s.fail("free-capacity", fmt.Sprintf("Free()=%d, Capacity()=%d", f, cp))
	}
}

func (s *seqRun) reset() {
	s.db.Reset()
	tick()
	s.m = newSmap(s.sp.cmp)
	s.log("Reset")
	s.st["reset"]++
	s.lenSize("Reset")
	it := s.db.NewIterator(nil)
	if it.First() || it.Last() {
		s.fail("reset", "iterator over a Reset DB found an entry")
	}
	it.Release()
}

// step compares one iterator movement with the cursor model.
func (s *seqRun) step(it iterator.Iterator, what string, got, want bool, wkey, wval []byte) bool {
	tick()
	s.st["iter_moves"]++
	s.log("  %s -> %v key=%s", what, got, hx(it.Key()))
	var why string
	switch {
	case got != want:
		why = fmt.Sprintf("returned %v, model %v", got, want)
	case it.Valid() != want:
		why = fmt.Sprintf("Valid()=%v, model %v", it.Valid(), want)
	case want && !bytes.Equal(it.Key(), wkey):
		why = "Key()=" + hx(it.Key())
	case want && !bytes.Equal(it.Value(), wval):
		why = "Value()=" + hx(it.Value()) + " want " + hx(wval)
	case !want && (it.Key() != nil || it.Value() != nil):
		why = "Key()/Value() not nil on an invalid iterator"
	case it.Error() != nil:
		why = "Error()=" + it.Error().Error()
	}
	if why != "" {
		s.fail("iter", fmt.Sprintf("%s: %s (model key %s)", what, why, hx(wkey)))
		return false
	}
	return true
}

func (s *seqRun) randRange() *util.Range {
	switch s.r.Intn(10) {
	case 0, 1, 2:
		return nil
	case 3:
		return &util.Range{}
	}
	a, b := s.key(40), s.key(40)
	x := s.r.Intn(100)
	switch {
	case x < 5:
		b = a // empty range
	case x < 10: // inverted (or equal)
		if s.sp.cmp.Compare(a, b) < 0 {
			a, b = b, a
		}
	default:
		if s.sp.cmp.Compare(a, b) > 0 {
			a, b = b, a
		}
	}
	rg := &util.Range{Start: a, Limit: b}
	switch s.r.Intn(6) {
	case 0:
		rg.Start = nil
	case 1:
		rg.Limit = nil
	}
	return rg
}

func rangeStr(rg *util.Range) string {
	if rg == nil {
		return "nil"
	}
	return "[" + hx(rg.Start) + "," + hx(rg.Limit) + ")"
}

// pickMove draws a movement; runs in one direction and reversals both happen.
func (s *seqRun) pickMove() int {
	switch x := s.r.Intn(100); {
	case x < 36:
		return 0 // Next
	case x < 72:
		return 1 // Prev
	case x < 86:
		return 2 // Seek
	case x < 93:
		return 3 // First
	default:
		return 4 // Last
	}
}

// iterStatic: no writes while the iterator lives; oracle is model.Cursor.
func (s *seqRun) iterStatic() {
	rg := s.randRange()
	var start, limit []byte
	if rg != nil {
		start, limit = rg.Start, rg.Limit
		s.st["iter_sessions_ranged"]++
	} else {
		s.st["iter_sessions_nil_range"]++
	}
	cur := model.NewCursor(s.m.rng(start, limit), s.sp.cmp)
	it := s.db.NewIterator(rg)
	defer it.Release()
	s.log("NewIterator(%s) over %d pairs", rangeStr(rg), len(cur.L))
	if it.Valid() || it.Key() != nil {
		s.fail("iter", "fresh iterator is valid")
		return
	}
	if len(cur.L) == 0 {
		s.st["iter_sessions_empty_view"]++
	}
	last := -1
	for n := 5 + s.r.Intn(60); n > 0 && !s.bad; n-- {
		mv := s.pickMove()
		if (mv == 0 && last == 1) || (mv == 1 && last == 0) {
			s.st["iter_reversals"]++
		}
		if mv <= 1 && !cur.Valid() {
			s.st["iter_moves_from_invalid"]++
		}
		last = mv
		var got, want bool
		var what string
		switch mv {
		case 0:
			what, got, want = "Next", it.Next(), cur.Next()
		case 1:
			what, got, want = "Prev", it.Prev(), cur.Prev()
		case 2:
			k := s.key(40)
			what, got, want = "Seek("+hx(k)+")", it.Seek(k), cur.Seek(k)
		case 3:
			what, got, want = "First", it.First(), cur.First()
		case 4:
			what, got, want = "Last", it.Last(), cur.Last()
		}
		if !s.step(it, what, got, want, cur.Key(), cur.Value()) {
			return
		}
	}
}

// liveCur is the cursor model for an iterator that stays open while NEW keys are
// put / live keys are overwritten (never deleted): its position is "before the
// first", "on key k" or "after the last", re-resolved against the current
// contents at every movement. With unchanged contents it coincides with model.Cursor.
type liveCur struct {
	state int // -1 before first, 0 on key, +1 after last
	key   []byte
}

func (lc *liveCur) move(m *smap, start, limit []byte, mv int, sk []byte) (bool, []byte, []byte) {
	lo, hi := m.bounds(start, limit)
	p := -1
	switch {
	case mv == 3 || (mv == 0 && lc.state < 0): // First
		p = lo
		if p >= hi {
			lc.state = 1
			return false, nil, nil
		}
	case mv == 4 || (mv == 1 && lc.state > 0): // Last
		p = hi - 1
		if p < lo {
			lc.state = -1
			return false, nil, nil
		}
	case mv == 2:
		p = m.search(sk)
		if p < lo {
			p = lo
		}
		if p >= hi {
			lc.state = 1
			return false, nil, nil
		}
	case mv == 0:
		if lc.state > 0 {
			return false, nil, nil
		}
		p = m.search(lc.key)
		if p < len(m.keys) && bytes.Equal(m.keys[p], lc.key) {
			p++
		}
		if p < lo {
			p = lo
		}
		if p >= hi {
			lc.state = 1
			return false, nil, nil
		}
	case mv == 1:
		if lc.state < 0 {
			return false, nil, nil
		}
		p = m.search(lc.key) - 1
		if p > hi-1 {
			p = hi - 1
		}
		if p < lo {
			lc.state = -1
			return false, nil, nil
		}
	}
	lc.state, lc.key = 0, m.keys[p]
	return true, lc.key, m.vals[string(lc.key)]
}

// iterLive: the iterator stays open across Puts (inserts and overwrites, as the
// DB's readers experience it). Each movement is judged against the contents at
// the time of the movement; nothing is claimed about Key()/Value() between a
// write and the next movement.
func (s *seqRun) iterLive() {
	rg := s.randRange()
	var start, limit []byte
	if rg != nil {
		start, limit = rg.Start, rg.Limit
	}
	s.st["iter_sessions_live"]++
	lc := &liveCur{state: -1}
	it := s.db.NewIterator(rg)
	defer it.Release()
	s.log("NewIterator(%s) live", rangeStr(rg))
	for n := 8 + s.r.Intn(60); n > 0 && !s.bad; n-- {
		if s.r.Intn(100) < 45 {
			for w := 1 + s.r.Intn(3); w > 0 && !s.bad; w-- {
				s.opn++
				s.put()
				s.st["puts_under_open_iterator"]++
			}
			if s.bad {
				return
			}
		}
		mv := s.pickMove()
		var got bool
		var what string
		var sk []byte
		switch mv {
		case 0:
			what, got = "Next", it.Next()
		case 1:
			what, got = "Prev", it.Prev()
		case 2:
			sk = s.key(40)
			what, got = "Seek("+hx(sk)+")", it.Seek(sk)
		case 3:
			what, got = "First", it.First()
		case 4:
			what, got = "Last", it.Last()
		}
		want, wkey, wval := lc.move(s.m, start, limit, mv, sk)
		if !s.step(it, what+" (live)", got, want, wkey, wval) {
			return
		}
	}
}

// sweep walks the whole DB forward and backward and recounts Size from scratch.
func (s *seqRun) sweep() {
	s.st["sweeps"]++
	all := s.m.rng(nil, nil)
	s.log("sweep over %d pairs", len(all))
	it := s.db.NewIterator(nil)
	defer it.Release()
	cur := model.NewCursor(all, s.sp.cmp)
	got, want := it.First(), cur.First()
	for n := len(all) + 2; n > 0; n-- {
		if !s.step(it, "sweep-forward", got, want, cur.Key(), cur.Value()) || !want {
			break
		}
		got, want = it.Next(), cur.Next()
	}
	if s.bad {
		return
	}
	got, want = it.Last(), cur.Last()
	for n := len(all) + 2; n > 0; n-- {
		if !s.step(it, "sweep-backward", got, want, cur.Key(), cur.Value()) || !want {
			break
		}
		got, want = it.Prev(), cur.Prev()
	}
	if z, w := s.db.Size(), s.m.recount(); z != w {
		s.fail("size", fmt.Sprintf("sweep: Size()=%d, recounted sum over live entries is %d", z, w))
	}
}

func seqCase(c *wk.Ctx, i int) {
	r := c.Rand(i)
	nkeys := 10 + r.Intn(1991)
	if r.Intn(3) == 0 {
		nkeys = 10 + r.Intn(60)
	}
	nops := 1000 + r.Intn(9001)
	sp, pool := pickSpace(r, nkeys)
	caps := []int{0, 1, 64, 1024, 64 << 10, 4 << 20}
	s := &seqRun{c: c, i: i, r: r, sp: sp, pool: pool, initCap: caps[r.Intn(len(caps))], nops: nops, st: map[string]int64{}}
	c.Begin(i, fmt.Sprintf("sequential space=%s nkeys=%d nops=%d cap=%d", sp.name, nkeys, nops, s.initCap))
	c.Guard(i, "memdb sequential program", func() {
		s.db = memdb.New(sp.cmp, s.initCap)
		s.m = newSmap(sp.cmp)
		putW, delW := 35, 15
		for s.opn = 0; s.opn < nops && !s.bad; s.opn++ {
			if s.opn%500 == 0 {
				switch r.Intn(3) {
				case 0:
					putW, delW = 35, 15
				case 1:
					putW, delW = 14, 36
				default:
					putW, delW = 25, 25
				}
			}
			x := r.Intn(1000)
			switch {
			case x < putW*10:
				s.put()
			case x < (putW+delW)*10:
				s.del()
			case x < 620:
				s.get()
			case x < 720:
				s.find()
			case x < 780:
				s.contains()
			case x < 830:
				s.meta()
			case x < 900:
				s.iterStatic()
			case x < 930:
				s.iterLive()
			case x < 935:
				s.sweep()
			case x < 937:
				s.reset()
			default:
				s.get()
			}
		}
		if !s.bad {
			s.sweep()
		}
		if !s.bad && r.Intn(2) == 0 { // Reset and reuse at the end of half of the programs
			s.reset()
			for n := 0; n < 200 && !s.bad; n++ {
				s.opn++
				if n%3 == 2 {
					s.del()
				} else {
					s.put()
				}
			}
			if !s.bad {
				s.sweep()
			}
		}
	})
	c.Eval()
	for k, v := range s.st {
		c.Count("seq_"+k, v)
	}
	c.Count("seq_cases", 1)
	c.Count("seq_space:"+sp.name, 1)
	c.Max("seq_max_live_keys", int64(s.maxLen))
	if s.db != nil {
		if cp := s.db.Capacity(); cp > s.initCap {
			c.Count("seq_cases_arena_grew", 1)
		}
	}
	if !s.bad && s.st["put_overwrite_other_length"] > 0 && s.st["delete_absent"] > 0 && s.st["iter_sessions_ranged"] > 0 && s.st["iter_reversals"] > 0 {
		c.Nontrivial(fmt.Sprintf("case-%d", i))
	}
	if !s.bad && c.WantSample() && i%7 == 0 {
		c.Sample(map[string]interface{}{"case": i, "kind": "sequential", "space": sp.name, "nkeys": nkeys, "nops": nops,
			"capacity": s.initCap, "stats": s.st, "last_ops": s.trace[max(0, len(s.trace)-10):]})
	}
}
