package main

import (
	"bytes"
	"fmt"
	"math/rand"
	"runtime"
	"sort"
	"sync"
	"sync/atomic"
	"time"

	"github.com/syndtr/goleveldb/leveldb/memdb"
	"github.com/syndtr/goleveldb/leveldb/util"

	"verif/model"
	"verif/wk"
)

// The writer's whole program is fixed before any goroutine starts, so the
// monitors' tables below are read-only during the run; the only shared mutable
// monitor state is the four atomics of concRun.

type wop struct {
	put    bool
	key    int32 // index into the sorted pool
	val    []byte
	insert bool // creates a node (the key is absent in the program model)
	absent bool // Delete of an absent key: must return ErrNotFound
}

type plan struct {
	sp     space
	pool   [][]byte // sorted under sp.cmp
	idx    map[string]int32
	ops    []wop
	perKey [][]int32 // per key: indices of the ops touching it, ascending
	valOp  map[string]int32
	insPre []int32 // insPre[j] = number of inserting ops among ops[0:j]
}

type concRun struct {
	c       *wk.Ctx
	i       int
	p       *plan
	db      *memdb.DB
	variant string
	nread   int

	started  atomic.Int64 // ops[0:started) have been started
	done     atomic.Int64 // ops[0:done) have returned
	finished atomic.Bool
	abort    atomic.Bool
	rops     atomic.Int64 // reader operations completed (pacing only)
}

func (p *plan) search(k []byte) int {
	return sort.Search(len(p.pool), func(i int) bool { return p.sp.cmp.Compare(p.pool[i], k) >= 0 })
}

// lastBefore returns the index of the last op on key ki among ops[0:s0), or -1.
func (p *plan) lastBefore(ki int32, s0 int64) (int32, int) {
	l := p.perKey[ki]
	n := sort.Search(len(l), func(i int) bool { return int64(l[i]) >= s0 })
	if n == 0 {
		return -1, 0
	}
	return l[n-1], n
}

// mayBeAbsent: some moment of the window [s0,s1) had key ki absent.
func (p *plan) mayBeAbsent(ki int32, s0, s1 int64) bool {
	b, n := p.lastBefore(ki, s0)
	if b < 0 || !p.ops[b].put {
		return true
	}
	l := p.perKey[ki]
	for ; n < len(l) && int64(l[n]) < s1; n++ {
		if !p.ops[l[n]].put {
			return true
		}
	}
	return false
}

// mayBePresent: some moment of the window had key ki present.
func (p *plan) mayBePresent(ki int32, s0, s1 int64) bool {
	b, n := p.lastBefore(ki, s0)
	if b >= 0 && p.ops[b].put {
		return true
	}
	l := p.perKey[ki]
	for ; n < len(l) && int64(l[n]) < s1; n++ {
		if p.ops[l[n]].put {
			return true
		}
	}
	return false
}

func (p *plan) history(ki int32, s0, s1 int64) []string {
	var out []string
	if ki < 0 {
		return out
	}
	for _, j := range p.perKey[ki] {
		if int64(j) < s0-40 || int64(j) > s1+5 {
			continue
		}
		k := "Delete"
		if p.ops[j].put {
			k = "Put " + hx(p.ops[j].val[:min(12, len(p.ops[j].val))])
		}
		out = append(out, fmt.Sprintf("op %d: %s", j, k))
	}
	if len(out) > 40 {
		out = out[len(out)-40:]
	}
	return out
}

func buildPlan(r *rand.Rand, sp space, pool [][]byte, mixed bool, nops int) *plan {
	p := &plan{sp: sp, idx: map[string]int32{}, valOp: map[string]int32{}}
	p.pool = append(p.pool, pool...)
	sort.Slice(p.pool, func(a, b int) bool { return sp.cmp.Compare(p.pool[a], p.pool[b]) < 0 })
	for i, k := range p.pool {
		p.idx[string(k)] = int32(i)
	}
	n := len(p.pool)
	p.perKey = make([][]int32, n)
	present := make([]bool, n)
	vsize := func() int {
		if r.Intn(12) == 0 {
			return 100 + r.Intn(700)
		}
		return 12 + r.Intn(60)
	}
	add := func(o wop) {
		j := int32(len(p.ops))
		if o.put {
			o.val = model.Value(uint32(o.key), uint32(j), 0, vsize())
			o.insert = !present[o.key]
			present[o.key] = true
			p.valOp[string(o.val)] = j
		} else {
			o.absent = !present[o.key]
			present[o.key] = false
		}
		p.perKey[o.key] = append(p.perKey[o.key], j)
		p.ops = append(p.ops, o)
	}
	if !mixed {
		// put-only, every key at most once (as the DB uses its buffers); a few keys are never stored
		perm := r.Perm(n)
		keep := n - r.Intn(n/8+1)
		if r.Intn(4) == 0 { // mostly ascending with local disorder: appends at the tail
			sort.Ints(perm)
			for x := 0; x+1 < n; x++ {
				if r.Intn(4) == 0 {
					perm[x], perm[x+1] = perm[x+1], perm[x]
				}
			}
		}
		for _, k := range perm[:keep] {
			add(wop{put: true, key: int32(k)})
		}
	} else {
		for len(p.ops) < nops {
			k := int32(r.Intn(n))
			if r.Intn(4) == 0 {
				k = int32(r.Intn(n/8 + 1)) // a hot subset: many versions of few keys
			}
			add(wop{put: r.Intn(100) < 58, key: k})
		}
	}
	p.insPre = make([]int32, len(p.ops)+1)
	for j, o := range p.ops {
		p.insPre[j+1] = p.insPre[j]
		if o.insert {
			p.insPre[j+1]++
		}
	}
	return p
}

func (cr *concRun) viol(sig, msg string, w map[string]interface{}) {
	if cr.abort.Swap(true) {
		return // one witness per case is enough
	}
	w["case"], w["space"], w["variant"], w["readers"] = cr.i, cr.p.sp.name, cr.variant, cr.nread
	w["pool_keys"], w["writer_ops"] = len(cr.p.pool), len(cr.p.ops)
	cr.c.Violation(cr.i, "conc:"+sig, msg, w)
}

type rstat struct {
	get, contains, find, exact                 int64
	fwd, bwd, zig, steps                       int64
	passOverlapWrite, passOverlapInsert        int64
	pointOverlap, stableChecked, afterWriter   int64
}

type reader struct {
	cr   *concRun
	id   int
	r    *rand.Rand
	st   rstat
	mark []int32
	gen  int32
}

// judgePair: a (key, value) pair handed out by a read that began when done==s0
// and ended when started==s1. exact=true additionally demands that the answer is
// one the key could have had at some moment of the window (point reads).
func (rd *reader) judgePair(what string, ki int32, k, v []byte, s0, s1 int64, exact bool) bool {
	p := rd.cr.p
	j, ok := p.valOp[string(v)]
	if !ok || p.ops[j].key != ki || int64(j) >= s1 {
		rd.cr.viol("pair-never-stored", what+" yielded a pair that was never stored", map[string]interface{}{
			"reader": rd.id, "op": what, "key": hx(k), "value": hx(v), "window": []int64{s0, s1}, "history_of_key": p.history(ki, s0, s1)})
		return false
	}
	if exact && int64(j) < s0 {
		if b, _ := p.lastBefore(ki, s0); b != j {
			rd.cr.viol("stale-read", what+" returned a value that had been replaced or deleted before the call began", map[string]interface{}{
				"reader": rd.id, "op": what, "key": hx(k), "value": hx(v), "value_written_by_op": j, "window": []int64{s0, s1}, "history_of_key": p.history(ki, s0, s1)})
			return false
		}
	}
	return true
}

func (rd *reader) lost(what string, ki int32, s0, s1 int64) {
	p := rd.cr.p
	rd.cr.viol("lost-key", what+" did not find a key that was present during the whole call", map[string]interface{}{
		"reader": rd.id, "op": what, "key": hx(p.pool[ki]), "window": []int64{s0, s1}, "history_of_key": p.history(ki, s0, s1)})
}

func (rd *reader) pickKey() (int32, []byte) {
	p := rd.cr.p
	if rd.r.Intn(8) == 0 {
		k := p.sp.probe(rd.r)
		if ki, ok := p.idx[string(k)]; ok {
			return ki, k
		}
		return -1, k
	}
	ki := int32(rd.r.Intn(len(p.pool)))
	return ki, p.pool[ki]
}

func (rd *reader) pointOps(n int) {
	cr, p, db := rd.cr, rd.cr.p, rd.cr.db
	for ; n > 0 && !cr.abort.Load(); n-- {
		ki, k := rd.pickKey()
		switch rd.r.Intn(3) {
		case 0:
			s0 := cr.done.Load()
			v, err := db.Get(k)
			s1 := cr.started.Load()
			tick()
			rd.st.get++
			if err != nil && err != memdb.ErrNotFound {
				cr.viol("get-error", "Get returned "+err.Error(), map[string]interface{}{"key": hx(k)})
				return
			}
			if err == nil {
				if ki < 0 {
					cr.viol("pair-never-stored", "Get found a key that was never stored", map[string]interface{}{"key": hx(k), "value": hx(v)})
					return
				}
				if !rd.judgePair("Get", ki, k, v, s0, s1, true) {
					return
				}
			} else if ki >= 0 && !p.mayBeAbsent(ki, s0, s1) {
				rd.lost("Get", ki, s0, s1)
				return
			}
			rd.window(s0, s1)
		case 1:
			s0 := cr.done.Load()
			got := db.Contains(k)
			s1 := cr.started.Load()
			tick()
			rd.st.contains++
			if got && (ki < 0 || !p.mayBePresent(ki, s0, s1)) {
				cr.viol("contains-phantom", "Contains reported a key that was absent during the whole call", map[string]interface{}{
					"reader": rd.id, "key": hx(k), "window": []int64{s0, s1}, "history_of_key": p.history(ki, s0, s1)})
				return
			}
			if !got && ki >= 0 && !p.mayBeAbsent(ki, s0, s1) {
				rd.lost("Contains", ki, s0, s1)
				return
			}
			rd.window(s0, s1)
		default:
			s0 := cr.done.Load()
			rk, v, err := db.Find(k)
			s1 := cr.started.Load()
			tick()
			rd.st.find++
			if err != nil && err != memdb.ErrNotFound {
				cr.viol("find-error", "Find returned "+err.Error(), map[string]interface{}{"key": hx(k)})
				return
			}
			from := p.search(k)
			to := len(p.pool)
			if err == nil {
				qi, ok := p.idx[string(rk)]
				if !ok {
					cr.viol("pair-never-stored", "Find yielded a key that was never stored", map[string]interface{}{"sought": hx(k), "key": hx(rk), "value": hx(v)})
					return
				}
				if p.sp.cmp.Compare(rk, k) < 0 {
					cr.viol("find-below", "Find yielded a key below the sought key", map[string]interface{}{"sought": hx(k), "key": hx(rk)})
					return
				}
				if !rd.judgePair("Find", qi, rk, v, s0, s1, true) {
					return
				}
				to = int(qi)
			}
			// no key that was present during the whole call may lie in [sought, result)
			for q := from; q < to && q < from+64; q++ {
				if !p.mayBeAbsent(int32(q), s0, s1) {
					rd.lost("Find("+hx(k)+")", int32(q), s0, s1)
					return
				}
			}
			rd.window(s0, s1)
		}
		cr.rops.Add(1)
	}
}

func (rd *reader) window(s0, s1 int64) {
	if s1 > s0 {
		rd.st.pointOverlap++
	} else {
		rd.st.exact++
	}
}

// pass runs one iterator pass (the iterator is created, used and released by this goroutine only).
func (rd *reader) pass() {
	cr, p, db := rd.cr, rd.cr.p, rd.cr.db
	cmp := p.sp.cmp
	n := len(p.pool)
	var rg *util.Range
	var start, limit []byte
	if rd.r.Intn(3) == 0 {
		a, b := p.pool[rd.r.Intn(n)], p.pool[rd.r.Intn(n)]
		if rd.r.Intn(4) == 0 {
			a = p.sp.probe(rd.r)
		}
		if cmp.Compare(a, b) > 0 {
			a, b = b, a
		}
		rg = &util.Range{Start: a, Limit: b}
		switch rd.r.Intn(4) {
		case 0:
			rg.Start = nil
		case 1:
			rg.Limit = nil
		}
		start, limit = rg.Start, rg.Limit
	}
	kind := rd.r.Intn(7) // 0,1 forward  2,3 backward  4 seek+forward  5 seek+backward  6 zigzag
	budget := 2*len(p.ops) + 8
	if kind >= 4 && rd.r.Intn(2) == 0 {
		budget = 1 + rd.r.Intn(60)
	}
	if kind == 6 {
		budget = 10 + rd.r.Intn(150)
	}
	rd.gen++
	if rd.mark == nil {
		rd.mark = make([]int32, n)
	}
	it := db.NewIterator(rg)
	defer it.Release()
	s0 := cr.done.Load()

	var sk []byte
	var ok bool
	forward := kind == 0 || kind == 1 || kind == 4
	switch kind {
	case 0, 1:
		ok = it.First()
	case 2, 3:
		ok = it.Last()
	default:
		_, sk = rd.pickKey()
		ok = it.Seek(sk)
	}
	tick()
	steps := int64(1)
	var prev []byte
	firstIdx, lastIdx := int32(-1), int32(-1)
	seekOK := ok && kind >= 4
	exhausted := false
	lastMove := 0 // +1 Next, -1 Prev, 0 positioning
	for {
		if !ok {
			if it.Key() != nil || it.Value() != nil || it.Valid() {
				cr.viol("iter-invalid-state", "iterator returned false but is valid / has a key", map[string]interface{}{"reader": rd.id})
				return
			}
			if kind != 6 || steps > int64(budget) {
				exhausted = true
				break
			}
			prev = nil
		} else {
			k, v := it.Key(), it.Value()
			s1 := cr.started.Load()
			ki, known := p.idx[string(k)]
			if !known {
				cr.viol("pair-never-stored", "iterator yielded a key that was never stored", map[string]interface{}{"reader": rd.id, "key": hx(k), "value": hx(v)})
				return
			}
			if !rd.judgePair("iterator", ki, k, v, s0, s1, false) {
				return
			}
			if (start != nil && cmp.Compare(k, start) < 0) || (limit != nil && cmp.Compare(k, limit) >= 0) {
				cr.viol("iter-out-of-range", "iterator yielded a key outside its range", map[string]interface{}{"reader": rd.id, "key": hx(k), "range": rangeStr(rg)})
				return
			}
			if lastMove == 0 && kind >= 4 && cmp.Compare(k, sk) < 0 {
				cr.viol("iter-seek-below", "Seek positioned below the sought key", map[string]interface{}{"reader": rd.id, "key": hx(k), "sought": hx(sk)})
				return
			}
			if prev != nil && lastMove != 0 {
				if x := cmp.Compare(k, prev); (lastMove > 0 && x <= 0) || (lastMove < 0 && x >= 0) {
					mv := "Next"
					if lastMove < 0 {
						mv = "Prev"
					}
					cr.viol("iter-out-of-order", mv+" did not move strictly in its direction", map[string]interface{}{
						"reader": rd.id, "move": mv, "previous_key": hx(prev), "key": hx(k), "window": []int64{s0, s1}})
					return
				}
			}
			prev = append(prev[:0], k...)
			rd.mark[ki] = rd.gen
			if firstIdx < 0 {
				firstIdx = ki
			}
			lastIdx = ki
		}
		if steps > int64(budget) || cr.abort.Load() {
			break
		}
		switch {
		case kind == 6:
			if rd.r.Intn(2) == 0 {
				ok, lastMove = it.Next(), 1
			} else {
				ok, lastMove = it.Prev(), -1
			}
		case forward:
			ok, lastMove = it.Next(), 1
		default:
			ok, lastMove = it.Prev(), -1
		}
		tick()
		steps++
	}
	s1 := cr.started.Load()
	cr.rops.Add(steps)
	rd.st.steps += steps
	switch {
	case kind == 6:
		rd.st.zig++
	case forward:
		rd.st.fwd++
	default:
		rd.st.bwd++
	}
	if s1 > s0 {
		rd.st.passOverlapWrite++
		if p.insPre[s1] > p.insPre[s0] {
			rd.st.passOverlapInsert++
		}
	}
	if s0 == int64(len(p.ops)) {
		rd.st.afterWriter++
	}
	if kind == 6 || cr.abort.Load() {
		return
	}
	// Completeness of a monotone pass: every key that was present from before the
	// pass began until after it ended, inside the stretch the pass covered, must
	// have been yielded (its node stayed linked the whole time).
	lo, hi := 0, n
	if start != nil {
		lo = p.search(start)
	}
	if limit != nil {
		hi = p.search(limit)
	}
	if kind == 4 || (kind == 5 && !seekOK) {
		// Seek yields the smallest key >= sk: nothing stable may lie in [sk, first yielded),
		// and after a failed Seek nothing stable may lie at or above sk at all.
		if q := p.search(sk); q > lo {
			lo = q
		}
	}
	if forward {
		if !exhausted {
			if lastIdx < 0 {
				return
			}
			hi = min(hi, int(lastIdx)+1)
		}
	} else {
		if seekOK {
			hi = min(hi, int(firstIdx)+1)
		}
		if !exhausted {
			if lastIdx < 0 {
				return
			}
			lo = max(lo, int(lastIdx))
		}
	}
	for q := lo; q < hi; q++ {
		if rd.mark[q] == rd.gen || p.mayBeAbsent(int32(q), s0, s1) {
			continue
		}
		dir := "forward"
		if !forward {
			dir = "backward"
		}
		cr.viol("iter-missed-stable-key", "a "+dir+" pass skipped a key that was present during the whole pass", map[string]interface{}{
			"reader": rd.id, "direction": dir, "key": hx(p.pool[q]), "range": rangeStr(rg), "sought": hx(sk), "exhausted": exhausted,
			"window": []int64{s0, s1}, "history_of_key": p.history(int32(q), s0, s1)})
		return
	}
	rd.st.stableChecked += int64(hi - lo)
}

func (rd *reader) loop() {
	cr := rd.cr
	for {
		fin := cr.finished.Load()
		if rd.r.Intn(3) == 0 {
			rd.pointOps(8 + rd.r.Intn(40))
		} else {
			rd.pass()
		}
		if fin || cr.abort.Load() {
			return
		}
	}
}

// writer runs the program. perOp > 0 ties its progress to the readers' (op j does
// not start before the readers have completed j*perOp steps), which spreads the
// writes over the readers' whole budget; perOp == 0 lets it run flat out. This is
// pacing only: no verdict depends on it.
func (cr *concRun) writer(perOp float64) {
	p, db := cr.p, cr.db
	for j, o := range p.ops {
		if perOp > 0 {
			target := int64(float64(j) * perOp)
			for cr.rops.Load() < target && !cr.abort.Load() {
				runtime.Gosched()
			}
		}
		if cr.abort.Load() {
			return
		}
		cr.started.Store(int64(j + 1))
		k := p.pool[o.key]
		var err error
		if o.put {
			err = db.Put(k, o.val)
		} else {
			err = db.Delete(k)
		}
		tick()
		cr.done.Store(int64(j + 1))
		if (o.put && err != nil) || (!o.put && !o.absent && err != nil) || (!o.put && o.absent && err != memdb.ErrNotFound) {
			cr.viol("writer-result", "writer got an unexpected result", map[string]interface{}{"op": j, "put": o.put, "key": hx(k), "err": errStr(err), "key_was_absent": o.absent})
			return
		}
	}
}

func concCase(c *wk.Ctx, i int) bool {
	r := c.Rand(i)
	mixed := r.Intn(2) == 0
	nkeys := 50 + r.Intn(1951)
	if c.Race {
		nkeys = 30 + r.Intn(370)
	}
	nops := nkeys * (2 + r.Intn(4))
	sp, pool := pickSpace(r, nkeys)
	p := buildPlan(r, sp, pool, mixed, nops)
	cr := &concRun{c: c, i: i, p: p, nread: 2 + r.Intn(14), variant: "put-only"}
	if mixed {
		cr.variant = "put-overwrite-delete"
	}
	initCap := []int{0, 1, 100, 4096}[r.Intn(4)]
	budget := 250000.0 // reader steps over which the writes are spread
	if c.Race {
		budget = 40000
	}
	perOp := budget * []float64{0, 0.3, 1, 1}[r.Intn(4)] / float64(len(p.ops))
	c.Begin(i, fmt.Sprintf("concurrent %s space=%s keys=%d ops=%d readers=%d cap=%d reader_steps_per_write=%.1f", cr.variant, sp.name, nkeys, len(p.ops), cr.nread, initCap, perOp))
	cr.db = memdb.New(sp.cmp, initCap)
	readers := make([]*reader, cr.nread)
	for x := range readers {
		readers[x] = &reader{cr: cr, id: x, r: rand.New(rand.NewSource(r.Int63()))}
	}
	var wg sync.WaitGroup
	wg.Add(1 + cr.nread)
	go func() {
		defer wg.Done()
		if c.Guard(i, "memdb writer", func() { cr.writer(perOp) }) {
			cr.abort.Store(true)
		}
		cr.finished.Store(true)
	}()
	for _, rd := range readers {
		rd := rd
		go func() {
			defer wg.Done()
			if c.Guard(i, "memdb reader", rd.loop) {
				cr.abort.Store(true)
			}
		}()
	}
	joined := make(chan struct{})
	go func() { wg.Wait(); close(joined) }()
	grace := 0
wait:
	for {
		select {
		case <-joined:
			break wait
		case <-time.After(100 * time.Millisecond):
			// Only a case that has ALREADY recorded a violation is abandoned (a panic
			// inside a reader method leaves the read lock held, wedging the writer).
			if cr.abort.Load() {
				if grace++; grace > 30 {
					c.Eval()
					c.Count("conc_cases_abandoned_after_violation", 1)
					return false
				}
			}
		}
	}
	c.Eval()
	if !cr.abort.Load() {
		c.Guard(i, "memdb final sweep", func() { cr.finalSweep() })
	}
	var t rstat
	for _, rd := range readers {
		s := rd.st
		t.get += s.get
		t.contains += s.contains
		t.find += s.find
		t.exact += s.exact
		t.fwd += s.fwd
		t.bwd += s.bwd
		t.zig += s.zig
		t.steps += s.steps
		t.passOverlapWrite += s.passOverlapWrite
		t.passOverlapInsert += s.passOverlapInsert
		t.pointOverlap += s.pointOverlap
		t.stableChecked += s.stableChecked
		t.afterWriter += s.afterWriter
	}
	pre := "conc_"
	c.Count(pre+"cases", 1)
	if c.Race {
		c.Count("race_pass_cases", 1)
	}
	c.Count(pre+"cases:"+cr.variant, 1)
	c.Count(pre+"space:"+sp.name, 1)
	c.Count(pre+"writer_ops", cr.done.Load())
	c.Count(pre+"writer_inserts", int64(p.insPre[cr.done.Load()]))
	c.Count(pre+"reader_get", t.get)
	c.Count(pre+"reader_contains", t.contains)
	c.Count(pre+"reader_find", t.find)
	c.Count(pre+"point_reads_overlapping_a_write", t.pointOverlap)
	c.Count(pre+"point_reads_not_overlapping", t.exact)
	c.Count(pre+"passes_forward", t.fwd)
	c.Count(pre+"passes_backward", t.bwd)
	c.Count(pre+"passes_zigzag", t.zig)
	c.Count(pre+"iterator_steps", t.steps)
	c.Count(pre+"passes_overlapping_a_write", t.passOverlapWrite)
	c.Count(pre+"passes_overlapping_an_insert", t.passOverlapInsert)
	c.Count(pre+"passes_after_writer_finished", t.afterWriter)
	c.Count(pre+"stable_keys_checked_in_passes", t.stableChecked)
	c.Max(pre+"max_readers", int64(cr.nread))
	grew := cr.db.Capacity() > initCap
	if grew {
		c.Count(pre+"cases_arena_grew", 1)
	}
	if !cr.abort.Load() && t.passOverlapInsert > 0 && grew {
		c.Nontrivial(fmt.Sprintf("case-%d", i))
	}
	if !cr.abort.Load() && c.WantSample() {
		c.Sample(map[string]interface{}{"case": i, "kind": "concurrent", "variant": cr.variant, "space": sp.name, "pool_keys": nkeys,
			"writer_ops": len(p.ops), "readers": cr.nread, "initial_capacity": initCap, "final_capacity": cr.db.Capacity(),
			"passes": t.fwd + t.bwd + t.zig, "passes_overlapping_an_insert": t.passOverlapInsert, "point_reads": t.get + t.contains + t.find})
	}
	return true
}

// finalSweep: after all goroutines have joined the DB must equal the final state of the writer's program.
func (cr *concRun) finalSweep() {
	p, db := cr.p, cr.db
	end := int64(len(p.ops))
	var want [][2][]byte
	size := 0
	for ki := range p.pool {
		if b, _ := p.lastBefore(int32(ki), end); b >= 0 && p.ops[b].put {
			want = append(want, [2][]byte{p.pool[ki], p.ops[b].val})
			size += len(p.pool[ki]) + len(p.ops[b].val)
		}
	}
	bad := func(msg string) {
		cr.viol("final-state", "after the run: "+msg, map[string]interface{}{"expected_live_keys": len(want)})
	}
	if db.Len() != len(want) || db.Size() != size {
		bad(fmt.Sprintf("Len()=%d Size()=%d, writer's program leaves %d keys / %d bytes", db.Len(), db.Size(), len(want), size))
		return
	}
	it := db.NewIterator(nil)
	defer it.Release()
	n := 0
	for ok := it.First(); ok; ok = it.Next() {
		tick()
		if n >= len(want) || !bytes.Equal(it.Key(), want[n][0]) || !bytes.Equal(it.Value(), want[n][1]) {
			bad(fmt.Sprintf("forward walk, position %d: key %s", n, hx(it.Key())))
			return
		}
		n++
	}
	if n != len(want) {
		bad(fmt.Sprintf("forward walk yielded %d of %d pairs", n, len(want)))
		return
	}
	for ok := it.Last(); ok; ok = it.Prev() {
		tick()
		n--
		if n < 0 || !bytes.Equal(it.Key(), want[n][0]) || !bytes.Equal(it.Value(), want[n][1]) {
			bad(fmt.Sprintf("backward walk, position %d: key %s", n, hx(it.Key())))
			return
		}
	}
	if n != 0 {
		bad(fmt.Sprintf("backward walk stopped %d pairs early", n))
	}
}
