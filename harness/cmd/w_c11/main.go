// Worker for C11: transactions are isolated, atomic and leave no residue when discarded.
package main

import (
	"bytes"
	"encoding/binary"
	"fmt"
	"math/rand"
	"runtime"
	"sync"
	"sync/atomic"
	"time"

	"github.com/syndtr/goleveldb/leveldb"
	"github.com/syndtr/goleveldb/leveldb/iterator"
	"github.com/syndtr/goleveldb/leveldb/storage"
	"github.com/syndtr/goleveldb/leveldb/util"

	"verif/dbx"
	"verif/lsm"
	"verif/model"
	"verif/vstor"
	"verif/wk"
)

func main() { wk.Main("C11", run) }

func run(c *wk.Ctx) {
	n := c.Pick(240, 3000)
	if c.Race {
		n = c.Pick(32, 200)
	}
	for i := 0; i < n; i++ {
		if c.Mine(i) {
			runCase(c, i)
		}
	}
	if !c.Race {
		for j := 0; j < c.Pick(64, 600); j++ {
			if c.Mine(2000000 + j) {
				scenarioDiscardRemovalFails(c, 2000000+j)
			}
		}
	}
}

var clock int64

func stamp() int64 { return atomic.AddInt64(&clock, 1) }

// txValue tags a value with the transaction that wrote it.
func txValue(tx uint32, j int, size int) []byte {
	if size < 12 {
		size = 12
	}
	return model.Value(1000+tx, uint32(j), 0, size)
}

func txOf(v []byte) (uint32, bool) {
	if len(v) < 4 {
		return 0, false
	}
	id := binary.BigEndian.Uint32(v)
	if id >= 1000 {
		return id - 1000, true
	}
	return 0, false
}

// txState is what outside readers may see: idle (not judged), open (exactly base),
// committing (base or base+transaction).
type txState struct {
	phase string
	base  *model.Map
	txm   *model.Map
	keys  [][]byte // committing: keys written by the transaction
}

func runCase(c *wk.Ctx, i int) {
	r := c.Rand(i)
	os := model.RandomOptions(r, model.OptConstraints{})
	os.O.WriteBuffer = []int{1 << 10, 2 << 10, 4 << 10, 16 << 10}[r.Intn(4)]
	os.Desc["WriteBuffer"] = os.O.WriteBuffer
	withFaults := i%4 == 3
	nreaders := r.Intn(5)
	nwriters := r.Intn(3)
	ntx := 3 + r.Intn(c.Pick(10, 25))
	c.Begin(i, fmt.Sprintf("faults=%v readers=%d writers=%d ntx=%d opts=%v", withFaults, nreaders, nwriters, ntx, os.Desc))
	st := vstor.New(false)
	db, err := leveldb.Open(st, os.Clone())
	if err != nil {
		c.Violation(i, "open-failed", err.Error(), nil)
		return
	}
	cmp := os.O.Comparer
	kg := model.NewKeyGen(r, 40+r.Intn(300))
	M := model.NewMap(cmp)
	var pub atomic.Value
	var pubKeys [][]byte
	setState := func(phase string, base, txm *model.Map) {
		pub.Store(&txState{phase: phase, base: base, txm: txm, keys: pubKeys})
	}
	publish := func() { setState("idle", nil, nil) }
	publish()
	// outside writers rewrite constant pairs that are part of the model from the start
	oval := func(w int) []byte { return model.Value(uint32(500+w), 0, 0, 20) }
	for w := 0; w < 3; w++ {
		k := []byte(fmt.Sprintf("o/%d", w))
		if err := db.Put(k, oval(w), nil); err != nil {
			c.Violation(i, "unexpected-error", err.Error(), nil)
			return
		}
		M.Put(k, oval(w))
	}
	var (
		failed    int32
		stop      int32
		discarded sync.Map // tx id -> true: must never be visible
		txOpenRet int64    // stamp after OpenTransaction returned (0 = no open transaction)
		txDoneInv int64    // stamp immediately before Commit/Discard was invoked
		txEpoch   int64
	)
	fail := func(sig, msg string, w map[string]interface{}) {
		if atomic.CompareAndSwapInt32(&failed, 0, 1) {
			if w == nil {
				w = map[string]interface{}{}
			}
			w["options"] = os.Desc
			lg := st.Logs()
			if len(lg) > 50 {
				lg = lg[len(lg)-50:]
			}
			var ll []string
			for _, l := range lg {
				ll = append(ll, l.Text)
			}
			w["db_log_tail"] = ll
			c.Violation(i, sig, msg, w)
		}
	}
	// ---- outside readers: see the committed model, never a transaction in progress
	var paused, inflight int32
	var khMu sync.Mutex
	keyHist := map[string][]string{}
	note := func(k []byte, format string, a ...interface{}) {
		khMu.Lock()
		keyHist[string(k)] = append(keyHist[string(k)], fmt.Sprintf(format, a...))
		khMu.Unlock()
	}
	var outcomes []string
	// readOnce returns false when the reader should stop.
	// snapOnce: a snapshot taken while a transaction is being committed shows, for the keys the transaction
	// wrote, either the state before it or the state after it - and goes on showing that same state when it
	// is read again after the commit has finished ("Commit makes all of them visible at once").
	snapOnce := func(rr *rand.Rand, p0 *txState) bool {
		sn, err := db.GetSnapshot()
		if err != nil {
			return err != leveldb.ErrClosed
		}
		defer sn.Release()
		if pub.Load().(*txState) != p0 {
			return true // the phase changed while the snapshot was being taken: not judged
		}
		nk := len(p0.keys)
		if nk > 24 {
			nk = 24
		}
		off := 0
		if len(p0.keys) > nk {
			off = rr.Intn(len(p0.keys) - nk)
		}
		keys := p0.keys[off : off+nk]
		classify := func() (olds, news int, vals [][]byte, ok bool) {
			for _, k := range keys {
				v, err := sn.Get(k, nil)
				if err != nil && err != leveldb.ErrNotFound {
					return 0, 0, nil, false
				}
				if err != nil {
					v = nil
				} else if v == nil {
					v = []byte{}
				}
				vals = append(vals, v)
				bw, bl := p0.base.Get(k)
				tw, tl := p0.txm.Get(k)
				isOld := bl && err == nil && bytes.Equal(v, bw) || !bl && err != nil
				isNew := tl && err == nil && bytes.Equal(v, tw) || !tl && err != nil
				switch {
				case isOld && isNew:
				case isOld:
					olds++
				case isNew:
					news++
				default:
					olds, news = olds+1, news+1 // neither: reported as a mixed view below
				}
			}
			return olds, news, vals, true
		}
		o1, n1, v1, ok := classify()
		if !ok {
			return true
		}
		// read again once the commit has ended (bounded wait in steps, not in time)
		for spin := 0; spin < 20000 && pub.Load().(*txState) == p0 && atomic.LoadInt32(&stop) == 0; spin++ {
			runtime.Gosched()
		}
		o2, n2, v2, ok := classify()
		if !ok {
			return true
		}
		c.Count("snapshots_taken_while_a_transaction_was_committing", 1)
		if o1 > 0 && n1 > 0 || o2 > 0 && n2 > 0 {
			fail("atomicity:snapshot-sees-part-of-a-committing-transaction", fmt.Sprintf("a snapshot taken during Commit shows %d keys of the transaction in their old state and %d in their new state (second pass: %d old, %d new)", o1, n1, o2, n2), nil)
			return false
		}
		for j := range v1 {
			if (v1[j] == nil) != (v2[j] == nil) || !bytes.Equal(v1[j], v2[j]) {
				fail("atomicity:snapshot-taken-during-commit-changed", fmt.Sprintf("a snapshot taken during Commit returned %.40x for key %x at first and %.40x when read again after the commit had finished (first pass %d old / %d new, second pass %d old / %d new)", v1[j], keys[j], v2[j], o1, n1, o2, n2), nil)
				return false
			}
		}
		return true
	}
	readOnce := func(rr *rand.Rand) bool {
		p0 := pub.Load().(*txState)
		if p0.phase == "committing" && len(p0.keys) > 0 && rr.Intn(4) == 0 {
			return snapOnce(rr, p0)
		}
		k := kg.Pick(rr)
		v, err := db.Get(k, nil)
		p1 := pub.Load().(*txState)
		if err != nil && err != leveldb.ErrNotFound {
			return err != leveldb.ErrClosed // injected faults: no information
		}
		if p0 != p1 || p0.phase == "idle" {
			return true // the state changed during the read, or plain writes are going on: not judged here
		}
		okFor := func(m *model.Map) bool {
			want, live := m.Get(k)
			return live && err == nil && bytes.Equal(v, want) || !live && err == leveldb.ErrNotFound
		}
		if !(okFor(p0.base) || (p0.phase == "committing" && okFor(p0.txm))) {
			tx, _ := txOf(v)
			w, l := p0.base.Get(k)
			khMu.Lock()
			kh := append([]string(nil), keyHist[string(k)]...)
			oc := append([]string(nil), outcomes...)
			khMu.Unlock()
			var tv string
			if p0.txm != nil {
				x, xl := p0.txm.Get(k)
				tv = fmt.Sprintf("%x live=%v", x, xl)
			}
			fail("isolation:outside-reader-saw-uncommitted-or-lost-data", fmt.Sprintf("while a transaction was %s, outside Get(%x) = %.40x (err %v; value tagged with transaction %d) but the state at its start says %.40x live=%v", p0.phase, k, v, err, tx, w, l),
				map[string]interface{}{"history_of_key": kh, "transaction_outcomes": oc, "value_in_transaction_model": tv})
			return false
		}
		c.Count("outside_reads_judged", 1)
		if p0.phase == "open" {
			c.Count("outside_reads_while_a_transaction_was_open", 1)
		}
		return true
	}
	var rwg sync.WaitGroup
	for q := 0; q < nreaders; q++ {
		rr := rand.New(rand.NewSource(r.Int63()))
		rwg.Add(1)
		go func() {
			defer rwg.Done()
			defer func() {
				if x := recover(); x != nil {
					fail("panic:outside-reader", fmt.Sprintf("outside reader panicked: %v", x), nil)
				}
			}()
			for atomic.LoadInt32(&stop) == 0 && atomic.LoadInt32(&failed) == 0 {
				atomic.AddInt32(&inflight, 1)
				if atomic.LoadInt32(&paused) != 0 {
					atomic.AddInt32(&inflight, -1)
					time.Sleep(50 * time.Microsecond)
					continue
				}
				ok := readOnce(rr)
				atomic.AddInt32(&inflight, -1)
				if !ok {
					return
				}
			}
		}()
	}
	// settle pauses the outside readers and waits for background work, so that storage can be audited
	settle := func() bool {
		atomic.StoreInt32(&paused, 1)
		for atomic.LoadInt32(&inflight) != 0 {
			time.Sleep(20 * time.Microsecond)
		}
		return leveldb.VerifBarrier(db) == nil
	}
	resume := func() { atomic.StoreInt32(&paused, 0) }
	// ---- outside writers on their own keys: must wait while a transaction is open
	var wwg sync.WaitGroup
	for w := 0; w < nwriters; w++ {
		w := w
		wwg.Add(1)
		go func() {
			defer wwg.Done()
			defer func() {
				if x := recover(); x != nil {
					fail("panic:outside-writer", fmt.Sprintf("outside writer panicked: %v", x), nil)
				}
			}()
			for n := 0; atomic.LoadInt32(&stop) == 0 && atomic.LoadInt32(&failed) == 0; n++ {
				ep0, open0 := atomic.LoadInt64(&txEpoch), atomic.LoadInt64(&txOpenRet)
				inv := stamp()
				err := db.Put([]byte(fmt.Sprintf("o/%d", w)), oval(w), nil)
				ret := stamp()
				if err == leveldb.ErrClosed {
					return
				}
				// invoked strictly after OpenTransaction had returned, in the same transaction epoch
				if open0 != 0 && ep0 == atomic.LoadInt64(&txEpoch) && inv > open0 {
					done := atomic.LoadInt64(&txDoneInv)
					if atomic.LoadInt64(&txOpenRet) == open0 && (done == 0 || done < open0) && err == nil {
						// the transaction is still open and its Commit/Discard has not even been invoked
						fail("writer-finished-while-transaction-open", fmt.Sprintf("outside Put invoked at %d (after OpenTransaction returned at %d) returned at %d although the transaction had not been committed or discarded", inv, open0, ret), nil)
						return
					}
					c.Count("outside_writes_invoked_while_a_transaction_was_open", 1)
				}
				time.Sleep(50 * time.Microsecond)
			}
		}()
	}
	// ---- the driver
	var openTr *leveldb.Transaction
	removeFaults := false // once a table removal was made to fail, files may legitimately stay behind: no leak audits
	driver := func() {
		defer func() {
			// a failed check may leave the transaction open: discard it, or the outside writers wait for ever
			if openTr != nil {
				openTr.Discard()
			}
		}()
		for t := 0; t < ntx && atomic.LoadInt32(&failed) == 0; t++ {
			// some plain writes in between. M has been published (as the base or the end state of the
			// previous transaction) and an outside reader that has finished its Get may still be comparing
			// against it: never mutate a published map in place.
			M = M.Clone()
			var recent [][]byte
			for j := 0; j < r.Intn(30); j++ {
				k := kg.Pick(r)
				recent = append(recent, k)
				v := model.Value(1, uint32(t), uint32(j), model.ValueSize(r, os.O.GetBlockSize(), os.O.GetWriteBuffer()))
				if err := db.Put(k, v, nil); err != nil {
					if withFaults {
						// A write whose call failed may still have been applied (the buffer rotation that follows
						// the application can fail while a background flush is in its error state). No fault is
						// armed at this point and this is the only writer of k: reading k back settles its fate.
						got, gerr := db.Get(k, nil)
						switch {
						case gerr == nil && bytes.Equal(got, v):
							M.Put(k, v)
							note(k, "plain put before tx%d j=%d (call failed, found applied)", t, j)
							c.Count("failed_plain_writes_found_applied", 1)
						case gerr == nil || gerr == leveldb.ErrNotFound:
						default:
							c.Count("cases_abandoned_because_a_write_fate_was_unreadable", 1)
							return
						}
						continue
					}
					fail("unexpected-error", "Put: "+err.Error(), nil)
					return
				}
				M.Put(k, v)
				note(k, "plain put before tx%d j=%d", t, j)
			}
			publish()
			slowFlush := r.Intn(5) == 0
			if slowFlush {
				// the flush of the current write buffer is slow: a transaction must still not get ahead of it
				st.AddDelay(vstor.OpCreate, storage.TypeTable, 20*time.Millisecond)
				c.Count("transactions_opened_with_a_slow_flush_pending", 1)
			}
			tr, err := db.OpenTransaction()
			if err != nil {
				if withFaults {
					continue
				}
				fail("unexpected-error", "OpenTransaction: "+err.Error(), nil)
				return
			}
			openTr = tr
			atomic.AddInt64(&txEpoch, 1)
			atomic.StoreInt64(&txDoneInv, 0)
			atomic.StoreInt64(&txOpenRet, stamp())
			base := M
			txM := M.Clone()
			setState("open", base, nil)
			id := uint32(t)
			nops := 1 + r.Intn(60)
			if slowFlush {
				nops = 1 + r.Intn(3)
			} else if r.Intn(4) == 0 {
				nops = 200 + r.Intn(c.Pick(1500, 3000)) // spans several internal flushes
			}
			var heldIters []iterator.Iterator
			var heldLists [][]model.KV
			bodyOK := true
			var txKeys [][]byte
			for j := 0; j < nops && bodyOK; j++ {
				k := kg.Pick(r)
				if slowFlush && len(recent) > 0 {
					k = recent[r.Intn(len(recent))] // overwrite what sits in the buffer that is being flushed
				}
				txKeys = append(txKeys, k)
				switch x := r.Intn(22); {
				case x >= 20:
					// a small batch applied to the transaction
					b := new(leveldb.Batch)
					type rec struct {
						del  bool
						k, v []byte
					}
					var recs []rec
					for q := 0; q < 1+r.Intn(6); q++ {
						kk := kg.Pick(r)
						if r.Intn(4) == 0 {
							b.Delete(kk)
							recs = append(recs, rec{true, kk, nil})
						} else {
							vv := txValue(id, j*8+q+100000, 20+r.Intn(100))
							b.Put(kk, vv)
							recs = append(recs, rec{false, kk, vv})
						}
					}
					if err := tr.Write(b, nil); err != nil {
						bodyOK = false
						break
					}
					for _, rc := range recs {
						if rc.del {
							txM.Delete(rc.k)
							note(rc.k, "tx%d batch-delete j=%d", id, j)
						} else {
							txM.Put(rc.k, rc.v)
							note(rc.k, "tx%d batch-put j=%d", id, j)
						}
					}
					c.Count("batches_written_into_transactions", 1)
				case x < 11:
					v := txValue(id, j, model.ValueSize(r, os.O.GetBlockSize(), os.O.GetWriteBuffer()))
					if err := tr.Put(k, v, nil); err != nil {
						bodyOK = false
						break
					}
					txM.Put(k, v)
					note(k, "tx%d put j=%d", id, j)
				case x < 14:
					if err := tr.Delete(k, nil); err != nil {
						bodyOK = false
						break
					}
					txM.Delete(k)
					note(k, "tx%d delete j=%d", id, j)
				case x < 19:
					want, live := txM.Get(k)
					got, err := tr.Get(k, nil)
					if withFaults && err != nil && err != leveldb.ErrNotFound {
						break
					}
					if live && (err != nil || !bytes.Equal(got, want)) || !live && err != leveldb.ErrNotFound {
						fail("transaction-view", fmt.Sprintf("Transaction.Get(%x) = %x,%v but start state + own writes says %x live=%v", k, got, err, want, live), nil)
						return
					}
					has, herr := tr.Has(k, nil)
					if herr == nil && has != live {
						fail("transaction-view", fmt.Sprintf("Transaction.Has(%x) = %v want %v", k, has, live), nil)
						return
					}
					c.Count("reads_inside_transactions", 1)
				default:
					// iterator inside the transaction: checked now, and some are kept for after the end
					var rg *util.Range
					if r.Intn(2) == 0 {
						a, b := kg.Pick(r), kg.Pick(r)
						if cmp.Compare(a, b) > 0 {
							a, b = b, a
						}
						rg = &util.Range{Start: a, Limit: b}
					}
					var list []model.KV
					if rg == nil {
						list = txM.Range(nil, nil)
					} else {
						list = txM.Range(rg.Start, rg.Limit)
					}
					it := tr.NewIterator(rg, nil)
					if !withFaults {
						ws := &dbx.WalkStats{}
						if mm := dbx.Walk(r, it, list, cmp, func() []byte { return kg.Pick(r) }, 20+r.Intn(40), ws); mm != nil {
							fail("transaction-view", "iterator inside the transaction: "+mm.Error(), map[string]interface{}{"mismatch": mm})
							it.Release()
							return
						}
						c.Count("iterators_inside_transactions", 1)
					}
					if len(heldIters) < 3 && !withFaults {
						heldIters = append(heldIters, it)
						heldLists = append(heldLists, list)
					} else {
						it.Release()
					}
				}
			}
			// faults around commit
			var flt *vstor.Fault
			if withFaults && r.Intn(2) == 0 {
				kinds := []vstor.OpKind{vstor.OpWrite, vstor.OpSync, vstor.OpCreate}
				types := []storage.FileType{storage.TypeManifest, storage.TypeTable}
				flt = st.AddFault(vstor.Fault{Kind: kinds[r.Intn(3)], Type: types[r.Intn(2)], Nth: 1, Count: 1 + r.Intn(4)})
			}
			outcome := "commit"
			if !bodyOK || r.Intn(4) == 0 {
				outcome = "discard"
				if withFaults && flt == nil && r.Intn(2) == 0 {
					// the removal of the discarded transaction's tables fails: the files may stay, but nothing of
					// their contents may ever be served again (their file numbers are handed back for reuse)
					flt = st.AddFault(vstor.Fault{Kind: vstor.OpRemove, Type: storage.TypeTable, Nth: 1, Count: []int{1, 3, 1000, 1000}[r.Intn(4)]})
					removeFaults = true
					c.Count("discards_with_failing_table_removal", 1)
				}
			} else if r.Intn(12) == 0 {
				outcome = "close"
			}
			atomic.StoreInt64(&txDoneInv, stamp())
			pubKeys = txKeys
			setState("committing", base, txM)
			pubKeys = nil
			switch outcome {
			case "commit":
				err := tr.Commit()
				if err != nil {
					c.Count("commit_errors", 1)
					// nothing may be visible yet
					if mm := checkVisible(db, base, kg, r, 25); mm != "" && !withFaults {
						fail("atomicity:visible-after-failed-commit", mm, nil)
						return
					}
					st.ClearFaults()
					if r.Intn(2) == 0 {
						if err2 := tr.Commit(); err2 == nil {
							M = txM
							c.Count("commit_error_then_retry_succeeded", 1)
						} else {
							tr.Discard()
							discarded.Store(id, true)
							outcome = "discard-after-failed-commit"
						}
					} else {
						tr.Discard()
						discarded.Store(id, true)
						outcome = "discard-after-failed-commit"
					}
				} else {
					M = txM
					// all of it is visible at once, right now (not only after background work has settled)
					for q := 0; q < 25; q++ {
						k := kg.Pick(r)
						if q < len(txKeys) {
							k = txKeys[q]
						}
						want, live := txM.Get(k)
						got, gerr := db.Get(k, nil)
						if gerr != nil && gerr != leveldb.ErrNotFound {
							continue
						}
						if live && !bytes.Equal(got, want) || !live && gerr == nil {
							fail("atomicity:not-visible-right-after-commit", fmt.Sprintf("immediately after Commit returned, Get(%x) = %.40x (err %v) but the committed state says %.40x live=%v", k, got, gerr, want, live), nil)
							return
						}
					}
					c.Count("reads_right_after_commit", 25)
				}
			case "discard":
				tr.Discard()
				discarded.Store(id, true)
			case "close":
				// closing the DB discards the open transaction (readers go home first:
				// Get racing Close with a tiny open-files cache was C09's finding F10, fixed since)
				atomic.StoreInt32(&stop, 1)
				st.ClearFaults()
				rwg.Wait()
				for _, it := range heldIters {
					it.Release() // "It is not safe to close a DB until all outstanding iterators are released"
				}
				heldIters = nil
				db.Close()
				discarded.Store(id, true)
			}
			st.ClearFaults()
			_ = flt
			publish()
			atomic.StoreInt64(&txOpenRet, 0)
			khMu.Lock()
			outcomes = append(outcomes, fmt.Sprintf("tx%d:%s", id, outcome))
			khMu.Unlock()
			c.Count("transactions:"+outcome, 1)
			c.Max("largest_transaction_body", int64(nops))
			if outcome == "close" {
				rwg.Wait()
				wwg.Wait()
				for _, it := range heldIters {
					it.Release()
				}
				db2, err := leveldb.Open(st, os.Clone())
				if err != nil {
					fail("reopen-failed", "Open after Close with an open transaction failed: "+err.Error(), nil)
					return
				}
				db = db2
				atomic.StoreInt32(&stop, 0)
				publish()
				if mm := sweep(db, M, kg, &discarded); mm != "" {
					fail("atomicity:residue-after-close-with-open-transaction", mm, nil)
					return
				}
				// settle first: compactions started by the new incarnation are work in progress, not residue
				if err := leveldb.VerifBarrier(db); err == nil {
					if ex := leak(db, st); ex != "" {
						fail("residue:files-after-close-with-open-transaction", ex, nil)
						return
					}
				}
				c.Count("leak_audits", 1)
				return // readers/writers are gone; the case ends here
			}
			publish()
			// iterators created inside the transaction stay usable after it ended
			for hi, it := range heldIters {
				if mm := dbx.FullScan(it, heldLists[hi]); mm != nil {
					fail("transaction-view", "iterator created inside a transaction, used after it ended: "+mm.Error(), map[string]interface{}{"mismatch": mm, "outcome": outcome})
					it.Release()
					return
				}
				it.Release()
				c.Count("transaction_iterators_used_after_the_end", 1)
			}
			if outcome != "commit" || r.Intn(3) == 0 {
				if !withFaults || true {
					if mm := sweep(db, M, kg, &discarded); mm != "" {
						fail("atomicity:state-after-"+outcome, mm, nil)
						return
					}
				}
			}
			if (outcome == "discard" || outcome == "discard-after-failed-commit") && nwriters == 0 && !removeFaults {
				if settle() {
					if ex := leak(db, st); ex != "" {
						fail("residue:files-after-discard", ex, map[string]interface{}{"outcome": outcome})
						resume()
						return
					}
					c.Count("leak_audits", 1)
				}
				resume()
			}
		}
		// final: reopen; committed transactions are durable without further action, discarded ones stay invisible
		publish()
		atomic.StoreInt32(&stop, 1)
		rwg.Wait()
		wwg.Wait()
		if err := db.Close(); err != nil && !withFaults {
			fail("unexpected-error", "Close: "+err.Error(), nil)
			return
		}
		db2, err := leveldb.Open(st, os.Clone())
		if err != nil {
			fail("reopen-failed", "Open failed: "+err.Error(), nil)
			return
		}
		db = db2
		if mm := sweep(db, M, kg, &discarded); mm != "" {
			fail("atomicity:state-after-reopen", mm, nil)
		}
	}
	func() {
		defer func() {
			if x := recover(); x != nil {
				fail("panic:driver", fmt.Sprintf("driver panicked: %v", x), nil)
			}
		}()
		driver()
	}()
	atomic.StoreInt32(&stop, 1)
	st.ClearFaults()
	rwg.Wait()
	wwg.Wait()
	db.Close()
	c.Eval()
	if withFaults {
		c.Count("cases_with_commit_faults", 1)
	}
	if atomic.LoadInt32(&failed) == 0 {
		c.Nontrivial(fmt.Sprintf("case-%d", i))
		if c.WantSample() {
			c.Sample(map[string]interface{}{"case": i, "transactions": ntx, "outside_readers": nreaders, "outside_writers": nwriters, "commit_faults": withFaults, "options": os.Desc})
		}
	}
}

func checkVisible(db *leveldb.DB, base *model.Map, kg *model.KeyGen, r *rand.Rand, n int) string {
	for j := 0; j < n; j++ {
		k := kg.Pick(r)
		want, live := base.Get(k)
		got, err := db.Get(k, nil)
		if err != nil && err != leveldb.ErrNotFound {
			continue
		}
		if live && !bytes.Equal(got, want) || !live && err == nil {
			return fmt.Sprintf("after Commit returned an error, outside Get(%x) = %x (err %v) but the state before the transaction says %x live=%v", k, got, err, want, live)
		}
	}
	return ""
}

// sweep compares the whole key space with the model and looks for values of discarded transactions.
func sweep(db *leveldb.DB, M *model.Map, kg *model.KeyGen, discarded *sync.Map) string {
	for _, k := range kg.Pool {
		want, live := M.Get(k)
		got, err := db.Get(k, nil)
		if err != nil && err != leveldb.ErrNotFound {
			return fmt.Sprintf("Get(%x) failed: %v", k, err)
		}
		if live && (err != nil || !bytes.Equal(got, want)) || !live && err == nil {
			tx, _ := txOf(got)
			return fmt.Sprintf("Get(%x) = %x (err %v, written by transaction %d) but the committed state says %x live=%v", k, got, err, tx, want, live)
		}
	}
	it := db.NewIterator(nil, nil)
	defer it.Release()
	for it.Next() {
		if tx, ok := txOf(it.Value()); ok {
			if _, d := discarded.Load(tx); d {
				return fmt.Sprintf("iteration yields %x = value written by discarded transaction %d", it.Key(), tx)
			}
		}
	}
	return ""
}

// leak runs the leak audit at a settled point.
func leak(db *leveldb.DB, st *vstor.Stor) string {
	vv, rel, err := leveldb.VerifPinVersion(db)
	if err != nil {
		return ""
	}
	defer rel()
	_, _, jn, fjn, _ := leveldb.VerifState(db)
	extra, missing := lsm.LeakAudit(vv, st, jn, fjn, leveldb.VerifManifestNum(db))
	if len(extra) > 0 || len(missing) > 0 {
		return fmt.Sprintf("storage holds unexpected files %v (missing live tables %v)", extra, missing)
	}
	return ""
}
