package main

// Directed scenario family for C11: a discarded transaction whose table files cannot be removed.
// Discard hands the file numbers of the transaction's tables back for reuse; whatever the storage
// says about the removal, nothing that was read from those tables (cached blocks, open readers) may
// be served for the tables that receive the same numbers next.

import (
	"bytes"
	"fmt"

	"github.com/syndtr/goleveldb/leveldb"
	"github.com/syndtr/goleveldb/leveldb/storage"

	"verif/dbx"
	"verif/model"
	"verif/vstor"
	"verif/wk"
)

func scenarioDiscardRemovalFails(c *wk.Ctx, i int) {
	r := c.Rand(i)
	os := model.RandomOptions(r, model.OptConstraints{})
	os.O.WriteBuffer = []int{1 << 10, 2 << 10, 4 << 10, 16 << 10}[r.Intn(4)]
	os.Desc["WriteBuffer"] = os.O.WriteBuffer
	if r.Intn(4) != 0 {
		// usually a block cache big enough to keep what the discarded transaction read
		os.O.DisableBlockCache = false
		os.O.BlockCacheCapacity = 8 << 20
		os.Desc["BlockCache"] = 8 << 20
	}
	c.Begin(i, fmt.Sprintf("scenario discard-with-failing-removal opts=%v", os.Desc))
	st := vstor.New(false)
	db, err := leveldb.Open(st, os.Clone())
	if err != nil {
		c.Violation(i, "open-failed", err.Error(), nil)
		return
	}
	defer func() { db.Close() }()
	cmp := os.O.Comparer
	kg := model.NewKeyGen(r, 30+r.Intn(200))
	M := model.NewMap(cmp)
	fail := func(sig, msg string, w map[string]interface{}) {
		if w == nil {
			w = map[string]interface{}{}
		}
		w["options"] = os.Desc
		lg := st.Logs()
		if len(lg) > 40 {
			lg = lg[len(lg)-40:]
		}
		var ll []string
		for _, l := range lg {
			ll = append(ll, l.Text)
		}
		w["db_log_tail"] = ll
		c.Violation(i, sig, msg, w)
	}
	c.Guard(i, "C11 scenario", func() {
		// some committed base state
		for j := 0; j < r.Intn(200); j++ {
			k := kg.Pick(r)
			v := model.Value(1, uint32(j), 0, 10+r.Intn(120))
			if err := db.Put(k, v, nil); err != nil {
				fail("unexpected-error", "Put: "+err.Error(), nil)
				return
			}
			M.Put(k, v)
		}
		rounds := 1 + r.Intn(4)
		for round := 0; round < rounds; round++ {
			leveldb.VerifBarrier(db) // quiet background: the transaction's last table is the newest file number
			// value sizes are drawn once per key position so that the discarded and the next transaction lay
			// their tables out alike (same block offsets)
			n := 20 + r.Intn(300)
			keys := make([][]byte, n)
			sizes := make([]int, n)
			for j := range keys {
				keys[j] = kg.Pick(r)
				sizes[j] = 12 + r.Intn(150)
			}
			body := func(id uint32) (*leveldb.Transaction, *model.Map, bool) {
				tr, err := db.OpenTransaction()
				if err != nil {
					fail("unexpected-error", "OpenTransaction: "+err.Error(), nil)
					return nil, nil, false
				}
				tm := M.Clone()
				for j, k := range keys {
					v := txValue(id, j, sizes[j])
					if err := tr.Put(k, v, nil); err != nil {
						tr.Discard()
						fail("unexpected-error", "Transaction.Put: "+err.Error(), nil)
						return nil, nil, false
					}
					tm.Put(k, v)
				}
				// read everything back through the transaction: pulls the blocks of its flushed tables into the cache
				it := tr.NewIterator(nil, nil)
				mm := dbx.FullScan(it, tm.Range(nil, nil))
				it.Release()
				if mm != nil {
					tr.Discard()
					fail("transaction-view", fmt.Sprintf("full scan inside transaction %d: %s", id, mm.Error()), map[string]interface{}{"mismatch": mm})
					return nil, nil, false
				}
				for j := 0; j < 20; j++ {
					k := keys[r.Intn(len(keys))]
					want, _ := tm.Get(k)
					got, err := tr.Get(k, nil)
					if err != nil || !bytes.Equal(got, want) {
						tr.Discard()
						fail("transaction-view", fmt.Sprintf("Transaction.Get(%x) inside transaction %d = %.40x (err %v), want %.40x", k, id, got, err, want), nil)
						return nil, nil, false
					}
				}
				return tr, tm, true
			}
			idA := uint32(2*round + 1)
			tr, _, ok := body(idA)
			if !ok {
				return
			}
			flt := st.AddFault(vstor.Fault{Kind: vstor.OpRemove, Type: storage.TypeTable, Nth: 1, Count: -1})
			tr.Discard()
			st.ClearFaults()
			if flt.Hits > 0 {
				c.Count("scenario_discards_whose_table_removal_failed", 1)
				c.Count("scenario_table_removals_failed", int64(flt.Hits))
			}
			var disc discardedSet
			disc.add(idA)
			if msg := sweepPlain(db, M, kg); msg != "" {
				fail("atomicity:state-after-discard", "after a Discard whose table removal failed: "+msg, nil)
				return
			}
			// the next transaction receives the file numbers that were handed back
			idB := uint32(2*round + 2)
			tr2, tm2, ok := body(idB)
			if !ok {
				return
			}
			if r.Intn(5) == 0 {
				tr2.Discard()
			} else {
				if err := tr2.Commit(); err != nil {
					fail("unexpected-error", "Commit: "+err.Error(), nil)
					return
				}
				M = tm2
			}
			if msg := sweepPlain(db, M, kg); msg != "" {
				fail("atomicity:residue-of-discarded-transaction", fmt.Sprintf("after transaction %d was discarded (table removal failing) and transaction %d ended: %s", idA, idB, msg), nil)
				return
			}
			c.Count("scenario_rounds", 1)
		}
		c.Nontrivial(fmt.Sprintf("scenario-%d", i))
	})
	c.Eval()
}

type discardedSet struct{ ids []uint32 }

func (d *discardedSet) add(id uint32) { d.ids = append(d.ids, id) }

// sweepPlain compares every pool key and a full iteration with the model.
func sweepPlain(db *leveldb.DB, M *model.Map, kg *model.KeyGen) string {
	for _, k := range kg.Pool {
		want, live := M.Get(k)
		got, err := db.Get(k, nil)
		if err != nil && err != leveldb.ErrNotFound {
			return fmt.Sprintf("Get(%x) failed: %v", k, err)
		}
		if live && (err != nil || !bytes.Equal(got, want)) || !live && err == nil {
			tx, _ := txOf(got)
			return fmt.Sprintf("Get(%x) = %.40x (err %v, value tagged with transaction %d) but the committed state says %.40x live=%v", k, got, err, tx, want, live)
		}
	}
	it := db.NewIterator(nil, nil)
	defer it.Release()
	if mm := dbx.FullScan(it, M.Range(nil, nil)); mm != nil {
		return "full iteration: " + mm.Error()
	}
	return ""
}
