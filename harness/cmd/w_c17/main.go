// Worker for C17: the shared cache never hands out a dead value and respects its capacity.
//
// A case is one cache (LRU of some capacity, or no cacher at all) hammered by 2-32 goroutines
// in phases separated by barriers. Every cached value is an instrumented object (*inst) whose
// Release method is the finaliser; a lock-free lifecycle monitor (per-key and per-instance
// atomics, so that the harness adds as few happens-before edges as possible for the race
// pass) asserts, while the real code runs:
//
//   - constructor entry: no other live instance (and no other constructor in progress) for the
//     same (ns,key)                                                        [two-live-values]
//   - Get return: the handle carries a value, of the requested key, not finalised, and it is
//     the key's current live instance                                     [get-returned-*]
//   - finaliser: first run for this instance, and (outside a force close) no handle counted
//     by the workers is outstanding                                       [finalised-*]
//   - deletion callback: first run, and (outside a force close) no counted handle outstanding
//     on the instance that was live when Delete was invoked               [delete-callback-*]
//   - barriers at which every worker has released everything: sum of charges of live
//     instances <= Capacity(), == Size(); every Delete issued so far has had its callback
//     run exactly once; EvictAll / EvictNS / SetCapacity issued by the coordinator leave
//     nothing they should not                                            [capacity-exceeded, ...]
//   - end of the case (cache closed, everything released): every constructed instance was
//     finalised exactly once, every accepted deletion callback ran exactly once.
//
// Handle accounting is sound by construction: a worker increments inst.handles AFTER Get
// returned and decrements it BEFORE Handle.Release, so the count never exceeds the number of
// handles really outstanding.
//
// Close is only ever called by the coordinator at a barrier (no goroutine is inside a cache
// call): Close racing Get can deadlock in the unchanged code (finding F10, owned by C09/C18).
package main

import (
	"fmt"
	"math/rand"
	"os"
	"runtime"
	"sync"
	"sync/atomic"
	"time"

	"github.com/anishathalye/porcupine"
	"github.com/syndtr/goleveldb/leveldb/cache"

	"verif/wk"
)

func main() { wk.Main("C17", run) }

func run(c *wk.Ctx) {
	n := c.Pick(1280, 9600)
	if c.Race {
		n = c.Pick(160, 1600)
	}
	for i := 0; i < n; i++ {
		if !c.Mine(i) {
			continue
		}
		runCase(c, i)
	}
}

// ---------------------------------------------------------------------------------------
// monitor state

type inst struct {
	cs      *caseState
	ks      *keyState
	a, k    int // namespace index, key index
	id      uint64
	charge  int
	handles atomic.Int32 // handles counted by the workers (<= really outstanding)
	fin     atomic.Int32 // finaliser runs
	finPh   atomic.Int32 // phase tag of the (first) finaliser run

	// logical-clock stamps, only in cases that record a history for porcupine
	ctorCall, ctorRet int64
	finCall, finRet   atomic.Int64
}

// hop is one recorded Get of a history case.
type hop struct {
	a, k      int
	id        uint64 // instance obtained, 0 = Get returned nil
	call, ret int64
	client    int
}

type keyState struct {
	live atomic.Pointer[inst] // instance constructed and not yet finalised
	busy atomic.Int32         // a constructor for this key is running
}

type delRec struct {
	a, k  int
	pre   *inst // live instance of the key when Delete was invoked (nil: none)
	post  bool  // issued after Close: the call is documented to be a no-op
	hold  bool  // issued in the hold phase (handles stay outstanding across Close)
	calls atomic.Int32
}

const (
	phOpen  = 1 // concurrent phase, cache open
	phHold  = 2 // concurrent phase before Close; workers keep their handles
	phCoord = 3 // coordinator alone, cache open
	phClose = 4 // coordinator inside Close
	phPost  = 5 // concurrent phase after Close
)

var phaseName = map[int32]string{phOpen: "open_phase", phHold: "hold_phase", phCoord: "coordinator_at_barrier", phClose: "inside_close", phPost: "after_close_on_last_release"}

const (
	opGet = iota
	opGetNilSet
	opGetNilVal
	opRelease
	opRelease2
	opDelete
	opDeleteNil
	opEvict
	opEvictNS
	opEvictAll
	opSetCap
	opStats
	opValue
	opYield
	nOps
)

var opName = [nOps]string{"get", "get_setfunc_nil", "get_setfunc_returns_nil", "release", "release_twice", "delete",
	"delete_nil_func", "evict", "evict_ns", "evict_all", "set_capacity", "stats_reads", "handle_value_reads", "yield"}

type caseCfg struct {
	Kind      string `json:"kind"`
	G         int    `json:"goroutines"`
	NsN       int    `json:"namespaces"`
	HotN      int    `json:"hot_keys"`
	WideN     int    `json:"wide_keys"`
	HotPct    int    `json:"hot_pct"`
	NilCacher bool   `json:"nil_cacher"`
	Cap0      int    `json:"capacity"`
	CapMax    int    `json:"capacity_max"`
	MaxHold   int    `json:"max_handles_per_worker"`
	Phases    int    `json:"open_phases"`
	OpsPer    int    `json:"ops_per_worker_per_phase"`
	CloseMode int    `json:"close_mode"`
	Yield     int    `json:"yield_mode"`
	KeyMap    int    `json:"key_map"`
	Hist      bool   `json:"porcupine_history"`
	cum       [nOps]int
	ns        [3]uint64
}

var closeModeName = []string{"Close(false)", "Close(true)", "EvictAll+Close(false)", "Close(true)x2", "Close(false)x2"}

type ev struct {
	op   uint8
	a    uint8
	k    int32
	id   uint64
	note int32
}

type heldH struct {
	h *cache.Handle
	x *inst
}

type worker struct {
	cs     *caseState
	id     int
	r      *rand.Rand
	held   []heldH
	made   []*inst
	dels   []*delRec
	nextID uint64
	ring   [24]ev
	rn     int
	hist   []hop

	ops          [nOps]int64
	nilGets      int64
	nilGetsOpen  int64
	hits         int64 // Get returned an instance this call did not construct
	shared       int64 // Get returned an instance that already had a counted handle
	maxShare     int32
	cbDeferred   int64
	cbImmediate  int64
	oversize     int64
	zeroCharge   int64
	nilValueCtor int64
	ctorThisGet  bool
	delTrue      int64
	evictTrue    int64
	concRel      int64
	heldDelete   int64
	maxBuckets   int
	maxNodes     int64
}

type caseState struct {
	c   *wk.Ctx
	idx int
	cfg caseCfg
	cch *cache.Cache

	keys    []keyState
	nkeys   int
	workers []*worker

	phase  atomic.Int32
	force  atomic.Bool
	closed atomic.Bool
	bad    atomic.Bool
	yctr   atomic.Uint32
	clock  atomic.Int64 // logical clock of history cases

	vmu    sync.Mutex
	vcount map[string]int

	// coordinator-only
	barriers     int64
	delsChecked  int64
	maxLive      int64
	maxNodes     int64
	nilLiveAtBar int64
	panicked     bool
}

func (cs *caseState) key(a, k int) *keyState { return &cs.keys[a*cs.nkeys+k] }

func (cs *caseState) keyOf(k int) uint64 {
	switch cs.cfg.KeyMap {
	case 1:
		return uint64(k) * 0x9E3779B97F4A7C15
	case 2:
		return uint64(k) << 32
	case 3:
		return ^uint64(k)
	}
	return uint64(k)
}

// violate reports at most two witnesses per signature and case; everything it needs is
// either immutable or atomic, so it may be called from constructor / finaliser / callback
// context (with cache-internal locks held).
func (cs *caseState) violate(w *worker, sig, msg string, extra map[string]interface{}) {
	cs.bad.Store(true)
	cs.vmu.Lock()
	n := cs.vcount[sig]
	cs.vcount[sig] = n + 1
	cs.vmu.Unlock()
	if n >= 2 {
		return
	}
	wit := map[string]interface{}{
		"case": cs.idx, "config": cs.cfg, "phase": phaseName[cs.phase.Load()],
		"close_mode": closeModeName[cs.cfg.CloseMode], "detail": extra,
		"note": "schedule-dependent: replay re-runs the same seeded program, the interleaving is whatever the run produces",
	}
	if w != nil {
		wit["worker"] = w.id
		wit["recent_ops_of_reporting_worker"] = w.recent()
	}
	cs.c.Violation(cs.idx, sig, msg, wit)
}

func (w *worker) log(op int, a, k int, x *inst, note int) {
	e := &w.ring[w.rn%len(w.ring)]
	w.rn++
	e.op, e.a, e.k, e.note = uint8(op), uint8(a), int32(k), int32(note)
	e.id = 0
	if x != nil {
		e.id = x.id
	}
}

func (w *worker) recent() []string {
	var out []string
	n := len(w.ring)
	for i := w.rn - n; i < w.rn; i++ {
		if i < 0 {
			continue
		}
		e := w.ring[i%n]
		out = append(out, fmt.Sprintf("%s ns#%d key#%d inst=%x note=%d", opName[e.op], e.a, e.k, e.id, e.note))
	}
	return out
}

// ---------------------------------------------------------------------------------------
// instrumented value

// Release is the finaliser the cache calls (util.Releaser).
func (x *inst) Release() {
	cs := x.cs
	n := x.fin.Add(1)
	if cs.cfg.Hist && n == 1 {
		x.finCall.Store(cs.clock.Add(1))
		defer func() { x.finRet.Store(cs.clock.Add(1)) }()
	}
	if n > 1 {
		cs.violate(nil, "finalised-twice", fmt.Sprintf("value %x of ns#%d key#%d finalised %d times", x.id, x.a, x.k, n),
			map[string]interface{}{"instance": fmt.Sprintf("%x", x.id), "ns": x.a, "key": x.k, "runs": n})
		return
	}
	x.finPh.Store(cs.phase.Load())
	if !cs.force.Load() {
		if h := x.handles.Load(); h > 0 {
			cs.violate(nil, "finalised-with-handle-outstanding",
				fmt.Sprintf("value %x of ns#%d key#%d finalised while %d handle(s) counted by the workers were outstanding (no force close)", x.id, x.a, x.k, h),
				map[string]interface{}{"instance": fmt.Sprintf("%x", x.id), "ns": x.a, "key": x.k, "handles": h})
		}
	}
	x.ks.live.CompareAndSwap(x, nil)
}

// construct is the body of every setFunc handed to Cache.Get.
func (w *worker) construct(ks *keyState, a, k int, nilVal bool) (int, cache.Value) {
	cs := w.cs
	w.ctorThisGet = true
	var call int64
	if cs.cfg.Hist {
		call = cs.clock.Add(1)
	}
	if !ks.busy.CompareAndSwap(0, 1) {
		cs.violate(w, "two-live-values", fmt.Sprintf("constructor for ns#%d key#%d entered while another constructor for the same key is running", a, k),
			map[string]interface{}{"ns": a, "key": k, "how": "overlapping constructors"})
	}
	if cur := ks.live.Load(); cur != nil {
		cs.violate(w, "two-live-values", fmt.Sprintf("constructor for ns#%d key#%d entered while value %x of the same key is live (handles counted: %d)", a, k, cur.id, cur.handles.Load()),
			map[string]interface{}{"ns": a, "key": k, "live_instance": fmt.Sprintf("%x", cur.id), "how": "constructor during a residency"})
	}
	if w.r.Intn(16) == 0 {
		runtime.Gosched() // constructor is slow sometimes (the node lock is held meanwhile)
	}
	if nilVal {
		w.nilValueCtor++
		ks.busy.Store(0)
		return 7, nil // a charge next to a nil value must be ignored by the cache
	}
	w.nextID++
	x := &inst{cs: cs, ks: ks, a: a, k: k, id: uint64(w.id+1)<<40 | w.nextID, charge: w.pickCharge()}
	if x.charge == 0 {
		w.zeroCharge++
	}
	x.ctorCall = call
	ks.live.Store(x)
	ks.busy.Store(0)
	w.made = append(w.made, x)
	if cs.cfg.Hist {
		x.ctorRet = cs.clock.Add(1)
	}
	return x.charge, x
}

func (w *worker) pickCharge() int {
	cf := &w.cs.cfg
	if cf.Kind == "hot" {
		return w.r.Intn(cf.CapMax + 2) // 0 .. capacity_max+1
	}
	switch p := w.r.Intn(100); {
	case p < 5:
		return 0
	case p < 85:
		return 1
	case p < 98:
		return 2 + w.r.Intn(7)
	case p < 99:
		return cf.CapMax + 1
	default:
		return w.r.Intn(cf.CapMax + 2)
	}
}

func (w *worker) pickKey() (int, int) {
	cf := &w.cs.cfg
	a := w.r.Intn(cf.NsN)
	if cf.WideN == 0 || (cf.HotN > 0 && w.r.Intn(100) < cf.HotPct) {
		return a, w.r.Intn(cf.HotN)
	}
	return a, cf.HotN + w.r.Intn(cf.WideN)
}

// pickKeyBiased prefers a key this worker holds a handle on (Delete / Evict under a live handle).
func (w *worker) pickKeyBiased() (int, int, bool) {
	if len(w.held) > 0 && w.r.Intn(3) == 0 {
		h := w.held[w.r.Intn(len(w.held))]
		return h.x.a, h.x.k, true
	}
	a, k := w.pickKey()
	return a, k, false
}

// ---------------------------------------------------------------------------------------
// operations

func (w *worker) doGet(mode int) {
	cs := w.cs
	if len(w.held) > 0 && len(w.held) >= cs.cfg.MaxHold {
		w.releaseAt(w.r.Intn(len(w.held)), false)
	}
	a, k := w.pickKey()
	ks := cs.key(a, k)
	var set func() (int, cache.Value)
	switch mode {
	case opGet:
		set = func() (int, cache.Value) { return w.construct(ks, a, k, false) }
	case opGetNilVal:
		set = func() (int, cache.Value) { return w.construct(ks, a, k, true) }
	}
	w.ctorThisGet = false
	rec := cs.cfg.Hist && !cs.closed.Load()
	var call int64
	if rec {
		call = cs.clock.Add(1)
	}
	h := cs.cch.Get(cs.cfg.ns[a], cs.keyOf(k), set)
	if h == nil {
		if rec && mode != opGet {
			w.hist = append(w.hist, hop{a: a, k: k, id: 0, call: call, ret: cs.clock.Add(1), client: w.id})
		}
		w.log(mode, a, k, nil, -1)
		w.nilGets++
		if mode == opGet && !cs.closed.Load() {
			w.nilGetsOpen++
		}
		return
	}
	x, _ := h.Value().(*inst)
	if x == nil {
		w.log(mode, a, k, nil, -2)
		cs.violate(w, "get-returned-handle-without-value", fmt.Sprintf("Get(ns#%d,key#%d) returned a handle whose value is nil (already finalised and cleared)", a, k),
			map[string]interface{}{"ns": a, "key": k})
		h.Release()
		return
	}
	if rec {
		w.hist = append(w.hist, hop{a: a, k: k, id: x.id, call: call, ret: cs.clock.Add(1), client: w.id})
	}
	n := x.handles.Add(1) // counted only now: never more than really outstanding
	w.log(mode, a, k, x, int(n))
	if f := x.fin.Load(); f != 0 {
		cs.violate(w, "get-returned-finalised-value", fmt.Sprintf("Get(ns#%d,key#%d) returned value %x which was already finalised (%d run(s))", a, k, x.id, f),
			map[string]interface{}{"ns": a, "key": k, "instance": fmt.Sprintf("%x", x.id)})
	} else if x.a != a || x.k != k {
		cs.violate(w, "get-returned-value-of-other-key", fmt.Sprintf("Get(ns#%d,key#%d) returned value %x constructed for ns#%d key#%d", a, k, x.id, x.a, x.k),
			map[string]interface{}{"ns": a, "key": k, "instance": fmt.Sprintf("%x", x.id), "value_ns": x.a, "value_key": x.k})
	} else if cur := ks.live.Load(); cur != x {
		cid := uint64(0)
		if cur != nil {
			cid = cur.id
		}
		cs.violate(w, "get-returned-non-current-instance", fmt.Sprintf("Get(ns#%d,key#%d) returned value %x while the key's live instance is %x", a, k, x.id, cid),
			map[string]interface{}{"ns": a, "key": k, "instance": fmt.Sprintf("%x", x.id), "live_instance": fmt.Sprintf("%x", cid)})
	}
	if !w.ctorThisGet {
		w.hits++
	}
	if n > 1 {
		w.shared++
		if n > w.maxShare {
			w.maxShare = n
		}
	} else if w.maxShare < 1 {
		w.maxShare = 1
	}
	if x.charge > cs.cfg.CapMax {
		w.oversize++
	}
	if cs.cfg.MaxHold == 0 {
		if w.r.Intn(8) == 0 {
			runtime.Gosched()
		}
		x.handles.Add(-1)
		h.Release()
		return
	}
	w.held = append(w.held, heldH{h, x})
}

func (w *worker) releaseAt(i int, twice bool) {
	cs := w.cs
	hh := w.held[i]
	w.held[i] = w.held[len(w.held)-1]
	w.held = w.held[:len(w.held)-1]
	if !cs.force.Load() {
		w.checkValue(hh)
	}
	w.log(opRelease, hh.x.a, hh.x.k, hh.x, 0)
	hh.x.handles.Add(-1) // before the real release
	if twice && w.r.Intn(2) == 0 {
		// the same handle released by two goroutines at once: still one release (Handle.Release swaps the
		// node pointer out atomically), so a value shared with another handle must stay alive
		var gate atomic.Int32
		done := make(chan struct{})
		go func() {
			gate.Add(1)
			for gate.Load() < 2 {
			}
			hh.h.Release()
			close(done)
		}()
		gate.Add(1)
		for gate.Load() < 2 {
			runtime.Gosched()
		}
		hh.h.Release()
		<-done
		w.concRel++
		return
	}
	hh.h.Release()
	if twice {
		hh.h.Release() // documented to be safe
	}
}

func (w *worker) checkValue(hh heldH) {
	if v, _ := hh.h.Value().(*inst); v != hh.x {
		w.cs.violate(w, "held-value-changed", fmt.Sprintf("a held handle on value %x of ns#%d key#%d no longer yields that value (got %v)", hh.x.id, hh.x.a, hh.x.k, v != nil),
			map[string]interface{}{"ns": hh.x.a, "key": hh.x.k, "instance": fmt.Sprintf("%x", hh.x.id)})
	}
}

func (w *worker) releaseAll() {
	for len(w.held) > 0 {
		w.releaseAt(len(w.held)-1, false)
	}
}

func (w *worker) doDelete(nilFunc bool) {
	cs := w.cs
	a, k, own := w.pickKeyBiased()
	if own {
		w.heldDelete++
	}
	ks := cs.key(a, k)
	if nilFunc {
		w.log(opDeleteNil, a, k, nil, 0)
		if cs.cch.Delete(cs.cfg.ns[a], cs.keyOf(k), nil) {
			w.delTrue++
		}
		return
	}
	ph := cs.phase.Load()
	rec := &delRec{a: a, k: k, pre: ks.live.Load(), post: ph == phPost, hold: ph == phHold}
	f := func() {
		n := rec.calls.Add(1)
		if n > 1 {
			cs.violate(nil, "delete-callback-twice", fmt.Sprintf("deletion callback of Delete(ns#%d,key#%d) ran %d times", rec.a, rec.k, n),
				map[string]interface{}{"ns": rec.a, "key": rec.k, "runs": n})
			return
		}
		if p := rec.pre; p != nil && !cs.force.Load() {
			if hc := p.handles.Load(); hc > 0 {
				cs.violate(nil, "delete-callback-with-handle-outstanding",
					fmt.Sprintf("deletion callback of Delete(ns#%d,key#%d) ran while %d counted handle(s) on value %x (live when Delete was invoked) were outstanding", rec.a, rec.k, hc, p.id),
					map[string]interface{}{"ns": rec.a, "key": rec.k, "instance": fmt.Sprintf("%x", p.id), "handles": hc})
			}
		}
	}
	w.log(opDelete, a, k, rec.pre, 0)
	if cs.cch.Delete(cs.cfg.ns[a], cs.keyOf(k), f) {
		w.delTrue++
	}
	if rec.calls.Load() == 0 {
		w.cbDeferred++
	} else {
		w.cbImmediate++
	}
	w.dels = append(w.dels, rec)
}

func (w *worker) step() {
	cs := w.cs
	cf := &cs.cfg
	p := w.r.Intn(1000000)
	op := opGet
	for i := 0; i < nOps; i++ {
		if p < cf.cum[i] {
			op = i
			break
		}
	}
	w.ops[op]++
	switch op {
	case opGet, opGetNilSet, opGetNilVal:
		w.doGet(op)
	case opRelease, opRelease2:
		if len(w.held) > 0 {
			w.releaseAt(w.r.Intn(len(w.held)), op == opRelease2)
		} else {
			w.ops[op]--
			w.ops[opGet]++
			w.doGet(opGet)
		}
	case opDelete, opDeleteNil:
		w.doDelete(op == opDeleteNil)
	case opEvict:
		a, k, _ := w.pickKeyBiased()
		w.log(opEvict, a, k, nil, 0)
		if cs.cch.Evict(cf.ns[a], cs.keyOf(k)) {
			w.evictTrue++
		}
	case opEvictNS:
		a := w.r.Intn(cf.NsN)
		w.log(opEvictNS, a, 0, nil, 0)
		cs.cch.EvictNS(cf.ns[a])
	case opEvictAll:
		w.log(opEvictAll, 0, 0, nil, 0)
		cs.cch.EvictAll()
	case opSetCap:
		v := 0
		switch w.r.Intn(6) {
		case 0:
			v = 0
		case 1:
			v = w.r.Intn(cf.CapMax/16 + 2)
		case 2:
			v = cf.CapMax / 2
		case 3, 4:
			v = cf.CapMax
		default:
			v = w.r.Intn(cf.CapMax + 1)
		}
		w.log(opSetCap, 0, 0, nil, v)
		cs.cch.SetCapacity(v)
	case opStats:
		_ = cs.cch.Size()
		_ = cs.cch.Nodes()
		_ = cs.cch.Capacity()
		if !cs.closed.Load() {
			st := cs.cch.GetStats() // dereferences the table head, which Close clears
			if st.Buckets > w.maxBuckets {
				w.maxBuckets = st.Buckets
			}
			if st.Nodes > w.maxNodes {
				w.maxNodes = st.Nodes
			}
		}
	case opValue:
		if len(w.held) > 0 && !cs.force.Load() {
			w.checkValue(w.held[w.r.Intn(len(w.held))])
		}
	case opYield:
		runtime.Gosched()
	}
}

// ---------------------------------------------------------------------------------------
// phases

func (cs *caseState) runPhase(tag int32, f func(w *worker)) {
	cs.phase.Store(tag)
	var wg sync.WaitGroup
	var pan atomic.Bool
	for _, w := range cs.workers {
		wg.Add(1)
		go func(w *worker) {
			defer wg.Done()
			if cs.c.Guard(cs.idx, "cache workload", func() { f(w) }) {
				pan.Store(true)
				cs.bad.Store(true)
			}
		}(w)
	}
	done := make(chan struct{})
	go func() { wg.Wait(); close(done) }()
	// The wait is unbounded (the orchestrator's watchdog owns hangs). Only a run that has
	// ALREADY reported a violation is cut short when its workload is wedged afterwards
	// (e.g. a panic left a cache-internal lock held): no verdict depends on this timer.
	grace := 0
	for {
		select {
		case <-done:
			if pan.Load() {
				cs.panicked = true
			}
			return
		case <-time.After(2 * time.Second):
			if cs.c.Violations() > 0 {
				if grace++; grace >= 5 {
					fmt.Fprintf(os.Stderr, "C17 worker: case %d wedged after a reported violation; giving up on this shard\n", cs.idx)
					os.Exit(3)
				}
			}
		}
	}
}

func (cs *caseState) openPhase(w *worker) {
	n := cs.cfg.OpsPer
	for i := 0; i < n && !cs.bad.Load(); i++ {
		w.step()
	}
	w.releaseAll()
}

func (cs *caseState) holdPhase(w *worker) {
	n := cs.cfg.OpsPer
	if n > 120 {
		n = 120
	}
	for i := 0; i < n && !cs.bad.Load(); i++ {
		w.step()
	}
	// keep what is held: Close runs with these handles outstanding
}

func (cs *caseState) postPhase(w *worker) {
	for i := 0; i < 60 && !cs.bad.Load(); i++ {
		w.step()
	}
	w.releaseAll()
}

// scan returns the sum of charges and the number of live instances, optionally of one namespace.
func (cs *caseState) scan(nsOnly int) (sum int64, n int64) {
	for a := 0; a < cs.cfg.NsN; a++ {
		if nsOnly >= 0 && a != nsOnly {
			continue
		}
		for k := 0; k < cs.nkeys; k++ {
			if x := cs.key(a, k).live.Load(); x != nil {
				sum += int64(x.charge)
				n++
			}
		}
	}
	return
}

// audit runs at a barrier at which every worker has released all its handles and no
// goroutine is inside a cache call.
func (cs *caseState) audit(where string) {
	sum, n := cs.scan(-1)
	capNow := cs.cch.Capacity()
	size := cs.cch.Size()
	nodes := int64(cs.cch.Nodes())
	if !cs.cfg.NilCacher && sum > int64(capNow) {
		cs.violate(nil, "capacity-exceeded", fmt.Sprintf("%s: all handles released, %d live values with total charge %d retained, capacity %d", where, n, sum, capNow),
			map[string]interface{}{"where": where, "live": n, "charge": sum, "capacity": capNow})
	}
	if int64(size) != sum {
		cs.violate(nil, "size-accounting", fmt.Sprintf("%s: Cache.Size()=%d but the live values' charges add up to %d (%d live)", where, size, sum, n),
			map[string]interface{}{"where": where, "live": n, "charge": sum, "size": size})
	}
	if cs.cfg.NilCacher && n > cs.nilLiveAtBar {
		cs.nilLiveAtBar = n
	}
	if n > cs.maxLive {
		cs.maxLive = n
	}
	if nodes > cs.maxNodes {
		cs.maxNodes = nodes
	}
	cs.checkDels(where, false)
	cs.barriers++
}

// checkDels: at a settled point every Delete accepted by an open cache has had its callback
// run exactly once (more than once is reported by the callback itself).
func (cs *caseState) checkDels(where string, final bool) {
	for _, w := range cs.workers {
		keep := w.dels[:0]
		for _, d := range w.dels {
			if d.hold && !final {
				keep = append(keep, d)
				continue
			}
			cs.delsChecked++
			if d.post {
				continue // no-op call on a closed cache: nothing is promised beyond "at most once"
			}
			if d.calls.Load() == 0 {
				cs.violate(nil, "delete-callback-not-run", fmt.Sprintf("%s: every handle is released but the callback of Delete(ns#%d,key#%d) has not run", where, d.a, d.k),
					map[string]interface{}{"where": where, "ns": d.a, "key": d.k})
			}
		}
		w.dels = keep
	}
}

func (cs *caseState) coordinatorAction(r *rand.Rand) string {
	cf := &cs.cfg
	cs.phase.Store(phCoord)
	switch r.Intn(7) {
	case 0, 1:
		return "none"
	case 2:
		cs.cch.EvictAll()
		if _, n := cs.scan(-1); n != 0 && !cf.NilCacher {
			cs.violate(nil, "evict-left-live-value", fmt.Sprintf("EvictAll with no handle outstanding left %d values unfinalised", n), map[string]interface{}{"op": "EvictAll", "live": n})
		}
		cs.audit("after EvictAll at a barrier")
		return "EvictAll"
	case 3:
		a := r.Intn(cf.NsN)
		cs.cch.EvictNS(cf.ns[a])
		if _, n := cs.scan(a); n != 0 && !cf.NilCacher {
			cs.violate(nil, "evict-left-live-value", fmt.Sprintf("EvictNS(ns#%d) with no handle outstanding left %d values of that namespace unfinalised", a, n), map[string]interface{}{"op": "EvictNS", "ns": a, "live": n})
		}
		cs.audit("after EvictNS at a barrier")
		return "EvictNS"
	case 4:
		cs.cch.SetCapacity(0)
		cs.audit("after SetCapacity(0) at a barrier")
		v := r.Intn(cf.CapMax + 1)
		cs.cch.SetCapacity(v)
		return "SetCapacity(0)+SetCapacity"
	default:
		v := r.Intn(cf.CapMax + 1)
		if r.Intn(2) == 0 {
			v = cf.CapMax
		}
		cs.cch.SetCapacity(v)
		cs.audit("after SetCapacity at a barrier")
		return "SetCapacity"
	}
}

// ---------------------------------------------------------------------------------------
// case generation

func genCfg(c *wk.Ctx, r *rand.Rand) caseCfg {
	var cf caseCfg
	gs := []int{2, 2, 3, 4, 6, 8, 12, 16, 24, 32}
	cf.G = gs[r.Intn(len(gs))]
	cf.NsN = 1 + r.Intn(3)
	cf.MaxHold = r.Intn(4)
	cf.Phases = 2 + r.Intn(4)
	cf.CloseMode = r.Intn(len(closeModeName))
	cf.KeyMap = r.Intn(4)
	cf.Yield = r.Intn(3)
	if c.Race && cf.Yield == 2 {
		cf.Yield = 1 // no shared counter in the hook under the race detector
	}
	nsPool := []uint64{0, 1, 2, 1 << 32, ^uint64(0), 0x8000000000000000, uint64(r.Int63())}
	r.Shuffle(len(nsPool), func(i, j int) { nsPool[i], nsPool[j] = nsPool[j], nsPool[i] })
	copy(cf.ns[:], nsPool[:3])

	budget := 150000
	if c.Race {
		budget = 30000
	}
	kind := r.Intn(10)
	switch {
	case kind < 5:
		cf.Kind = "hot"
		cf.HotN = 1 + r.Intn(8)
		cf.HotPct = 100
		caps := []int{0, 1, 2, 3, 4, 6, 8, 16}
		cf.CapMax = caps[r.Intn(len(caps))]
		cf.NilCacher = r.Intn(4) == 0
		budget = budget * 2 / 3
		if !c.Race && r.Intn(3) == 0 {
			cf.Hist = true // second opinion: per-key history checked by porcupine
			budget = 24000
		}
	case kind < 8:
		cf.Kind = "mixed"
		cf.HotN = 1 + r.Intn(8)
		cf.HotPct = []int{10, 50, 90}[r.Intn(3)]
		cf.WideN = 2000 + r.Intn(10001)
		cf.CapMax = cf.WideN/8 + r.Intn(2*cf.WideN-cf.WideN/8+1)
		cf.NilCacher = r.Intn(10) == 0
	default:
		cf.Kind = "wide"
		cf.HotN = 0
		cf.WideN = 2000 + r.Intn(10001)
		cf.CapMax = cf.WideN/8 + r.Intn(2*cf.WideN-cf.WideN/8+1)
		cf.NilCacher = r.Intn(12) == 0
	}
	if c.Race && cf.WideN > 0 {
		cf.WideN = 1000 + cf.WideN/4
		if cf.CapMax > 2*cf.WideN {
			cf.CapMax = 2 * cf.WideN
		}
	}
	cf.Cap0 = r.Intn(cf.CapMax + 1)
	if r.Intn(3) == 0 {
		cf.Cap0 = cf.CapMax
	}
	cf.OpsPer = budget / (cf.G * cf.Phases)
	if cf.OpsPer < 50 {
		cf.OpsPer = 50
	}

	// per-operation probabilities in parts per million
	var p [nOps]int
	perPhase := func(times float64) int { return int(times * 1e6 / float64(cf.G*cf.OpsPer)) }
	if cf.Kind == "hot" {
		p[opEvictAll] = 4000
		p[opEvictNS] = 9000
		p[opSetCap] = 15000
		p[opEvict] = 80000
		p[opDelete] = 60000
		p[opDeleteNil] = 15000
	} else {
		if r.Intn(3) == 0 { // growth-friendly variant: the table gets large before it shrinks
			cf.Cap0 = cf.CapMax
			p[opEvictAll] = perPhase(0.1)
			p[opEvictNS] = perPhase(0.3)
			p[opSetCap] = perPhase(0.5)
		} else {
			p[opEvictAll] = perPhase(0.7)
			p[opEvictNS] = perPhase(2)
			p[opSetCap] = perPhase(4)
		}
		p[opEvict] = 50000
		p[opDelete] = 40000
		p[opDeleteNil] = 10000
	}
	p[opRelease] = 120000
	p[opRelease2] = 10000
	p[opGetNilSet] = 60000
	p[opGetNilVal] = 30000
	p[opStats] = 8000
	p[opValue] = 20000
	p[opYield] = 10000
	if r.Intn(4) == 0 { // delete/evict-heavy variant: short residencies
		p[opDelete] *= 3
		p[opEvict] *= 2
	}
	acc := 0
	for i := 1; i < nOps; i++ {
		acc += p[i]
		cf.cum[i] = acc
	}
	// opGet takes the rest: step() falls through to opGet when p >= cum[nOps-1]; cum[0] stays 0
	return cf
}

// ---------------------------------------------------------------------------------------

func runCase(c *wk.Ctx, i int) {
	r := c.Rand(i)
	cf := genCfg(c, r)
	cs := &caseState{c: c, idx: i, cfg: cf, vcount: map[string]int{}}
	cs.nkeys = cf.HotN + cf.WideN
	cs.keys = make([]keyState, cf.NsN*cs.nkeys)
	for g := 0; g < cf.G; g++ {
		cs.workers = append(cs.workers, &worker{cs: cs, id: g, r: rand.New(rand.NewSource(r.Int63()))})
	}
	cr := rand.New(rand.NewSource(r.Int63())) // coordinator's choices
	c.Begin(i, fmt.Sprintf("kind=%s G=%d ns=%d hot=%d wide=%d hot%%=%d nilcacher=%v cap=%d/%d hold=%d phases=%d ops=%d close=%s yield=%d keymap=%d",
		cf.Kind, cf.G, cf.NsN, cf.HotN, cf.WideN, cf.HotPct, cf.NilCacher, cf.Cap0, cf.CapMax, cf.MaxHold, cf.Phases, cf.OpsPer, closeModeName[cf.CloseMode], cf.Yield, cf.KeyMap))

	if cf.NilCacher {
		cs.cch = cache.NewCache(nil)
	} else {
		cs.cch = cache.NewCache(cache.NewLRU(cf.Cap0))
	}
	switch cf.Yield {
	case 1:
		cache.SetVerifYield(func(int) { runtime.Gosched() })
	case 2:
		cache.SetVerifYield(func(int) {
			if cs.yctr.Add(1)%4 == 0 {
				runtime.Gosched()
			}
		})
	default:
		cache.SetVerifYield(nil)
	}
	defer cache.SetVerifYield(nil)

	var actions []string
	for ph := 0; ph < cf.Phases && !cs.panicked; ph++ {
		cs.runPhase(phOpen, cs.openPhase)
		if cs.panicked {
			break
		}
		cs.phase.Store(phCoord)
		cs.audit(fmt.Sprintf("barrier after open phase %d", ph+1))
		actions = append(actions, cs.coordinatorAction(cr))
	}
	var st cache.Stats
	finalForce := false
	if !cs.panicked {
		cs.runPhase(phHold, cs.holdPhase)
	}
	if !cs.panicked {
		outstanding := 0
		for _, w := range cs.workers {
			outstanding += len(w.held)
		}
		c.Count("handles_outstanding_across_close", int64(outstanding))
		cs.phase.Store(phCoord)
		panicked := c.Guard(i, "Close", func() {
			st = cs.cch.GetStats()
			cs.closed.Store(true)
			switch cf.CloseMode {
			case 0:
				cs.phase.Store(phClose)
				cs.cch.Close(false)
			case 1:
				finalForce = true
				cs.force.Store(true)
				cs.phase.Store(phClose)
				cs.cch.Close(true)
			case 2:
				cs.cch.EvictAll()
				cs.phase.Store(phClose)
				cs.cch.Close(false)
			case 3:
				finalForce = true
				cs.force.Store(true)
				cs.phase.Store(phClose)
				cs.cch.Close(true)
				cs.cch.Close(true)
			case 4:
				cs.phase.Store(phClose)
				cs.cch.Close(false)
				cs.cch.Close(false)
			}
		})
		if panicked {
			cs.panicked = true
		}
	}
	if !cs.panicked {
		cs.runPhase(phPost, cs.postPhase)
	}
	c.Eval()

	// ---- final audit: cache closed, every handle released
	var made, fin1, never int64
	finBy := map[int32]int64{}
	if !cs.panicked {
		for _, w := range cs.workers {
			for _, x := range w.made {
				made++
				switch f := x.fin.Load(); {
				case f == 0:
					never++
					cs.violate(nil, "never-finalised", fmt.Sprintf("value %x of ns#%d key#%d (charge %d) was never finalised although the cache is closed and every handle is released", x.id, x.a, x.k, x.charge),
						map[string]interface{}{"instance": fmt.Sprintf("%x", x.id), "ns": x.a, "key": x.k, "charge": x.charge, "handles_counted": x.handles.Load()})
				default:
					fin1++
					finBy[x.finPh.Load()]++
				}
			}
		}
		cs.checkDels("end of case (cache closed, every handle released)", true)
	}

	if cf.Hist && !cs.bad.Load() && !cs.panicked {
		cs.checkHistories()
	}

	// ---- coverage
	var ops [nOps]int64
	var hits, shared, nilGets, nilGetsOpen, cbD, cbI, oversize, zero, nilCtor, delTrue, evTrue, heldDel int64
	var maxShare int32
	for _, w := range cs.workers {
		for k := range ops {
			ops[k] += w.ops[k]
		}
		hits += w.hits
		shared += w.shared
		nilGets += w.nilGets
		nilGetsOpen += w.nilGetsOpen
		cbD += w.cbDeferred
		cbI += w.cbImmediate
		oversize += w.oversize
		zero += w.zeroCharge
		nilCtor += w.nilValueCtor
		delTrue += w.delTrue
		evTrue += w.evictTrue
		c.Count("handles_released_by_two_goroutines_at_once", w.concRel)
		heldDel += w.heldDelete
		if w.maxShare > maxShare {
			maxShare = w.maxShare
		}
		c.Max("max_buckets_seen_while_running", int64(w.maxBuckets))
		c.Max("max_nodes_seen_while_running", w.maxNodes)
	}
	var total int64
	for k := range ops {
		c.Count("op:"+opName[k], ops[k])
		total += ops[k]
	}
	c.Count("ops_total", total)
	c.Count("residencies_constructed", made)
	c.Count("residencies_finalised_exactly_once", fin1)
	for ph, n := range finBy {
		c.Count("finalised:"+phaseName[ph], n)
	}
	if finalForce {
		c.Count("cases_force_close", 1)
	} else {
		c.Count("cases_plain_close", 1)
	}
	c.Count("close:"+closeModeName[cf.CloseMode], 1)
	c.Count("cases:"+cf.Kind, 1)
	if cf.NilCacher {
		c.Count("cases_nil_cacher", 1)
		c.Max("nil_cacher_live_values_at_barrier", cs.nilLiveAtBar)
	}
	c.Count("gets_returning_existing_value", hits)
	c.Count("gets_sharing_a_value_with_another_handle", shared)
	c.Count("gets_returning_nil", nilGets)
	c.Count("gets_with_constructor_returning_nil_on_open_cache", nilGetsOpen)
	c.Count("constructor_returned_nil", nilCtor)
	c.Count("delete_callbacks_deferred", cbD)
	c.Count("delete_callbacks_immediate_or_noop", cbI)
	c.Count("delete_callbacks_checked_at_settled_points", cs.delsChecked)
	c.Count("delete_of_key_held_by_caller", heldDel)
	c.Count("delete_returned_true", delTrue)
	c.Count("evict_returned_true", evTrue)
	c.Count("constructions_charge_above_max_capacity", oversize)
	c.Count("constructions_charge_zero", zero)
	c.Count("barriers_audited", cs.barriers)
	for _, a := range actions {
		c.Count("barrier_action:"+a, 1)
	}
	c.Count("table_grow", int64(st.GrowCount))
	c.Count("table_shrink", int64(st.ShrinkCount))
	c.Max("max_buckets_at_close", int64(st.Buckets))
	c.Max("max_simultaneous_handles_on_one_value", int64(maxShare))
	c.Max("max_live_values_at_barrier", cs.maxLive)
	c.Max("max_nodes_at_barrier", cs.maxNodes)
	c.Max("max_goroutines", int64(cf.G))
	if st.GrowCount > 0 && st.ShrinkCount > 0 {
		c.Count("cases_with_grow_and_shrink", 1)
	}
	preClose := finBy[phOpen] + finBy[phHold] + finBy[phCoord]
	if !cs.bad.Load() && preClose >= 10 && hits >= 1 && cs.barriers >= 1 {
		c.Nontrivial(fmt.Sprintf("case-%d", i))
	}
	if c.WantSample() {
		opm := map[string]int64{}
		for k := range ops {
			opm[opName[k]] = ops[k]
		}
		c.Sample(map[string]interface{}{
			"case": i, "config": cf, "close": closeModeName[cf.CloseMode], "ops": opm, "barrier_actions": actions,
			"constructed": made, "finalised_once": fin1, "finalised_before_close": preClose,
			"gets_sharing_a_value": shared, "max_handles_on_one_value": maxShare,
			"table":            map[string]interface{}{"grow": st.GrowCount, "shrink": st.ShrinkCount, "buckets": st.Buckets},
			"barriers_audited": cs.barriers,
		})
	}
}

// ---------------------------------------------------------------------------------------
// second opinion: porcupine over the recorded per-key history
//
// Sequential specification of one (ns,key): the state is the id of the live value (0: none).
//   construct(id)   needs state 0, sets state id      (id 0: the constructor returned nil)
//   finalise(id)    needs state id, sets state 0
//   get -> id       needs state id                    (id 0: Get returned nil on the open cache)
// Intervals: Get = [before the call, after it returned], constructor and finaliser = [entry, exit]
// of the instrumented functions, all stamped by one atomic logical clock. Only Gets issued while
// the cache was open are recorded.

type hin struct {
	kind int // 0 get, 1 construct, 2 finalise
	id   uint64
}

var lifeModel = porcupine.Model{
	Init: func() interface{} { return uint64(0) },
	Step: func(state, input, output interface{}) (bool, interface{}) {
		s := state.(uint64)
		in := input.(hin)
		switch in.kind {
		case 0:
			return s == in.id, s
		case 1:
			if s != 0 {
				return false, s
			}
			return true, in.id
		default:
			return s == in.id, uint64(0)
		}
	},
	DescribeOperation: func(input, output interface{}) string {
		in := input.(hin)
		return fmt.Sprintf("%s(%x)", []string{"get->", "construct", "finalise"}[in.kind], in.id)
	},
}

func (cs *caseState) checkHistories() {
	per := make([][]porcupine.Operation, len(cs.keys))
	for _, w := range cs.workers {
		for _, h := range w.hist {
			i := h.a*cs.nkeys + h.k
			per[i] = append(per[i], porcupine.Operation{ClientId: h.client, Input: hin{0, h.id}, Call: h.call, Return: h.ret})
		}
		for _, x := range w.made {
			i := x.a*cs.nkeys + x.k
			per[i] = append(per[i], porcupine.Operation{ClientId: w.id, Input: hin{1, x.id}, Call: x.ctorCall, Return: x.ctorRet})
			if fc, fr := x.finCall.Load(), x.finRet.Load(); fc != 0 && fr != 0 {
				per[i] = append(per[i], porcupine.Operation{ClientId: cs.cfg.G, Input: hin{2, x.id}, Call: fc, Return: fr})
			}
		}
	}
	for i, ops := range per {
		if len(ops) == 0 {
			continue
		}
		res := porcupine.CheckOperationsTimeout(lifeModel, ops, 5*time.Second)
		cs.c.Count("porcupine_operations", int64(len(ops)))
		switch res {
		case porcupine.Ok:
			cs.c.Count("porcupine_key_histories_ok", 1)
		case porcupine.Unknown:
			cs.c.Inconclusive("porcupine-timeout")
		default:
			a, k := i/cs.nkeys, i%cs.nkeys
			var dump []string
			for j, o := range ops {
				if j >= 4000 {
					break
				}
				in := o.Input.(hin)
				dump = append(dump, fmt.Sprintf("[%d,%d] client %d %s(%x)", o.Call, o.Return, o.ClientId, []string{"get->", "construct", "finalise"}[in.kind], in.id))
			}
			cs.violate(nil, "porcupine-illegal-history", fmt.Sprintf("history of ns#%d key#%d (%d operations) is not linearizable against 'Get returns the live value; one constructor per residency'", a, k, len(ops)),
				map[string]interface{}{"ns": a, "key": k, "operations": len(ops), "history": dump})
		}
	}
}
