// Worker for C15: internal key order and index-key shortening obey their laws.
//
// Every case takes one comparer of the matrix, builds the internal comparer over
// it through the hook export, generates triples of internal keys with related
// user keys / sequences and evaluates the laws directly.
package main

import (
	"bytes"
	"fmt"
	"math/rand"

	"github.com/syndtr/goleveldb/leveldb"
	"github.com/syndtr/goleveldb/leveldb/comparer"

	"verif/model"
	"verif/wk"
)

func main() { wk.Main("C15", run) }

const maxSeq = uint64(leveldb.VerifKeyMaxSeq)

type ent struct {
	u    []byte
	seq  uint64
	kind uint
	ik   []byte
}

func (e ent) String() string { return fmt.Sprintf("(%x, seq=%d, kind=%d)", e.u, e.seq, e.kind) }

func mk(u []byte, seq uint64, kind uint) ent {
	return ent{u: u, seq: seq, kind: kind, ik: leveldb.VerifMakeInternalKey(u, seq, kind)}
}

func sign(x int) int {
	switch {
	case x < 0:
		return -1
	case x > 0:
		return 1
	}
	return 0
}

type caseRun struct {
	c     *wk.Ctx
	i     int
	r     *rand.Rand
	ucmp  comparer.Comparer
	icmp  comparer.Comparer
	kg    *model.KeyGen
	bad   bool
	n     map[string]int64
	laws  int64
	trip  int
	cur   []ent
}

func (cr *caseRun) law(name string) { cr.n["law:"+name]++; cr.laws++ }

func (cr *caseRun) fail(sig, msg string, extra map[string]interface{}) {
	if cr.bad {
		return
	}
	cr.bad = true
	w := map[string]interface{}{"case": cr.i, "comparer": cr.ucmp.Name(), "triple_index": cr.trip, "law": sig, "detail": extra}
	var t []map[string]interface{}
	for _, e := range cr.cur {
		t = append(t, map[string]interface{}{"user_key": fmt.Sprintf("%x", e.u), "seq": e.seq, "kind": e.kind, "internal_key": fmt.Sprintf("%x", e.ik)})
	}
	w["triple"] = t
	cr.c.Violation(cr.i, sig, msg, w)
}

// mutate returns a neighbour of u.
func mutate(r *rand.Rand, u []byte) []byte {
	k := append([]byte{}, u...)
	switch r.Intn(9) {
	case 0:
		return append(k, 0)
	case 1:
		return append(k, 0xff)
	case 2:
		return append(k, byte(r.Intn(256)))
	case 3:
		if len(k) > 0 {
			return k[:len(k)-1]
		}
		return []byte{0}
	case 4:
		if len(k) > 0 {
			k[len(k)-1]++
		}
		return k
	case 5:
		if len(k) > 0 {
			k[len(k)-1]--
		}
		return k
	case 6: // increment with 0xff carry: "a\xff\xff" -> "b"
		for len(k) > 0 && k[len(k)-1] == 0xff {
			k = k[:len(k)-1]
		}
		if len(k) > 0 {
			k[len(k)-1]++
		}
		return k
	case 7: // change one inner byte by +-1 or +2, keep the tail (separator position in the middle)
		if len(k) > 0 {
			p := r.Intn(len(k))
			k[p] += byte([]int{1, 255, 2}[r.Intn(3)])
		}
		return k
	default: // common prefix, then a 0xff run
		p := 0
		if len(k) > 0 {
			p = r.Intn(len(k))
		}
		k = k[:p]
		for n := 1 + r.Intn(3); n > 0; n-- {
			k = append(k, 0xff)
		}
		if r.Intn(2) == 0 {
			k = append(k, byte(r.Intn(256)))
		}
		return k
	}
}

func seqPick(r *rand.Rand) uint64 {
	switch r.Intn(8) {
	case 0:
		return 0
	case 1:
		return 1
	case 2:
		return maxSeq
	case 3:
		return maxSeq - 1
	case 4:
		return uint64(r.Intn(300))
	case 5:
		return 255 + uint64(r.Intn(3)) // byte boundary of the packed number
	default:
		return uint64(r.Int63()) & maxSeq
	}
}

func seqNear(r *rand.Rand, s uint64) uint64 {
	switch r.Intn(3) {
	case 0:
		if s < maxSeq {
			return s + 1
		}
	case 1:
		if s > 0 {
			return s - 1
		}
	}
	return s
}

func (cr *caseRun) relUkey(bases ...[]byte) []byte {
	b := bases[cr.r.Intn(len(bases))]
	switch x := cr.r.Intn(100); {
	case x < 35:
		return b
	case x < 75:
		return mutate(cr.r, b)
	case x < 85:
		return mutate(cr.r, mutate(cr.r, b))
	}
	return cr.kg.Pick(cr.r)
}

func (cr *caseRun) relSeq(bases ...uint64) uint64 {
	if cr.r.Intn(100) < 45 {
		return seqNear(cr.r, bases[cr.r.Intn(len(bases))])
	}
	return seqPick(cr.r)
}

// want is the order the statement defines: user key ascending under ucmp, then
// sequence descending, then kind descending.
func (cr *caseRun) want(a, b ent) int {
	if x := sign(cr.ucmp.Compare(a.u, b.u)); x != 0 {
		return x
	}
	switch {
	case a.seq > b.seq:
		return -1
	case a.seq < b.seq:
		return 1
	case a.kind > b.kind:
		return -1
	case a.kind < b.kind:
		return 1
	}
	return 0
}

func (cr *caseRun) orderLaws(t []ent) {
	ic := cr.icmp
	var m [3][3]int
	for x := range t {
		for y := range t {
			m[x][y] = sign(ic.Compare(t[x].ik, t[y].ik))
		}
	}
	for x := range t {
		cr.law("irreflexive")
		if m[x][x] != 0 {
			cr.fail("order:irreflexive", fmt.Sprintf("Compare(x,x)=%d for x=%v", m[x][x], t[x]), nil)
		}
		u, s, k, err := leveldb.VerifParseInternalKey(t[x].ik)
		cr.law("encode-parse-roundtrip")
		if err != nil || !bytes.Equal(u, t[x].u) || s != t[x].seq || k != t[x].kind || len(t[x].ik) != len(t[x].u)+8 {
			cr.fail("key:roundtrip", fmt.Sprintf("parse(make%v) = (%x, %d, %d, %v)", t[x], u, s, k, err), nil)
		}
	}
	for x := 0; x < 3; x++ {
		for y := 0; y < 3; y++ {
			if x == y {
				continue
			}
			a, b := t[x], t[y]
			cr.law("antisymmetric")
			if m[x][y] != -m[y][x] {
				cr.fail("order:antisymmetric", fmt.Sprintf("Compare(a,b)=%d but Compare(b,a)=%d, a=%v b=%v", m[x][y], m[y][x], a, b), nil)
			}
			// "identical" up to the user comparer: equal user keys (all matrix comparers but the
			// padding-insensitive one are injective) and the same packed number
			same := cr.ucmp.Compare(a.u, b.u) == 0 && a.seq == b.seq && a.kind == b.kind
			cr.law("zero-iff-identical")
			if (m[x][y] == 0) != same {
				cr.fail("order:zero-iff-identical", fmt.Sprintf("Compare(a,b)=%d, identical=%v, a=%v b=%v", m[x][y], same, a, b), nil)
			}
			cr.law("definition")
			if w := cr.want(a, b); m[x][y] != w {
				cr.fail("order:definition", fmt.Sprintf("Compare(a,b)=%d, (user key asc, seq desc, kind desc) gives %d, a=%v b=%v", m[x][y], w, a, b), nil)
			}
			if x < y && bytes.Equal(a.u, b.u) {
				cr.n["same_user_key_pairs"]++
				if a.seq == b.seq {
					cr.n["same_user_key_and_seq_pairs"]++
				}
			}
			for z := 0; z < 3; z++ {
				if z == x || z == y {
					continue
				}
				if m[x][y] <= 0 && m[y][z] <= 0 {
					cr.law("transitive")
					if m[x][y] < 0 || m[y][z] < 0 {
						cr.n["transitive_strict_instances"]++
					}
					wantLE := 0
					if m[x][y] < 0 || m[y][z] < 0 {
						wantLE = -1
					}
					if m[x][z] > wantLE {
						cr.fail("order:transitive", fmt.Sprintf("a<=b (%d), b<=c (%d) but Compare(a,c)=%d; a=%v b=%v c=%v", m[x][y], m[y][z], m[x][z], a, b, t[z]), nil)
					}
				}
			}
		}
	}
}

// probeLaws: the lookup probe (k, s, seek kind) sorts at or before every entry of
// k with sequence <= s, after every entry of k with sequence > s, and relative to
// entries of other user keys as the user keys sort.
func (cr *caseRun) probeLaws(t []ent) {
	for _, e := range t {
		var ss []uint64
		ss = append(ss, e.seq, seqNear(cr.r, e.seq), seqPick(cr.r))
		for _, s := range ss {
			p := leveldb.VerifMakeInternalKey(e.u, s, 1)
			for _, f := range t {
				got := sign(cr.icmp.Compare(p, f.ik))
				if ux := sign(cr.ucmp.Compare(e.u, f.u)); ux != 0 {
					cr.law("probe-other-user-key")
					if got != ux {
						cr.fail("probe:other-user-key", fmt.Sprintf("probe (%x, seq=%d) vs entry %v: Compare=%d, user keys compare %d", e.u, s, f, got, ux), nil)
					}
					continue
				}
				if f.seq <= s {
					cr.law("probe-not-after-visible-entry")
					cr.n["probe_vs_visible_entry"]++
					if got > 0 || (got == 0 && !(f.seq == s && f.kind == 1)) {
						cr.fail("probe:after-visible-entry", fmt.Sprintf("probe (%x, seq=%d) must sort at or before entry %v (seq <= probe): Compare=%d", e.u, s, f, got), nil)
					}
				} else {
					cr.law("probe-after-newer-entry")
					cr.n["probe_vs_newer_entry"]++
					if got <= 0 {
						cr.fail("probe:before-newer-entry", fmt.Sprintf("probe (%x, seq=%d) must sort after entry %v (seq > probe): Compare=%d", e.u, s, f, got), nil)
					}
				}
			}
		}
	}
}

func (cr *caseRun) dst() []byte {
	if cr.r.Intn(2) == 0 {
		return nil
	}
	return make([]byte, 0, cr.r.Intn(48)) // what table.Writer passes: scratch[:0]
}

func (cr *caseRun) shortenLaws(t []ent) {
	ic := cr.icmp
	for x := range t {
		for y := range t {
			a, b := t[x], t[y]
			if x == y || ic.Compare(a.ik, b.ik) >= 0 {
				continue
			}
			ac, bc := append([]byte{}, a.ik...), append([]byte{}, b.ik...)
			sep := ic.Separator(cr.dst(), ac, bc)
			cr.law("separator")
			if !bytes.Equal(ac, a.ik) || !bytes.Equal(bc, b.ik) {
				cr.fail("separator:modified-input", "Separator modified a or b", nil)
			}
			if sep == nil {
				cr.n["internal_separator_nil"]++
				continue
			}
			if len(sep) < len(a.ik) {
				cr.n["internal_separator_shortened"]++
			} else {
				cr.n["internal_separator_unshortened"]++
			}
			if len(sep) < 8 {
				cr.fail("separator:not-an-internal-key", fmt.Sprintf("Separator(a,b)=%x is shorter than 8 bytes", sep), nil)
				continue
			}
			if ic.Compare(a.ik, sep) > 0 {
				cr.fail("separator:below-a", fmt.Sprintf("Separator(a,b)=%x sorts before a; a=%v b=%v", sep, a, b), nil)
			}
			if ic.Compare(sep, b.ik) >= 0 {
				cr.fail("separator:not-below-b", fmt.Sprintf("Separator(a,b)=%x does not sort before b; a=%v b=%v", sep, a, b), nil)
			}
		}
	}
	for _, b := range t {
		bc := append([]byte{}, b.ik...)
		suc := ic.Successor(cr.dst(), bc)
		cr.law("successor")
		if !bytes.Equal(bc, b.ik) {
			cr.fail("successor:modified-input", "Successor modified b", nil)
		}
		if suc == nil {
			cr.n["internal_successor_nil"]++
			continue
		}
		cr.n["internal_successor_shortened"]++
		if len(suc) < 8 {
			cr.fail("successor:not-an-internal-key", fmt.Sprintf("Successor(b)=%x is shorter than 8 bytes", suc), nil)
			continue
		}
		if ic.Compare(suc, b.ik) < 0 {
			cr.fail("successor:below-b", fmt.Sprintf("Successor(b)=%x sorts before b=%v", suc, b), nil)
		}
	}
}

// rawLaws checks the Separator/Successor contract of package comparer on user
// keys. For comparer.DefaultComparer a failure is a violation; for a comparer
// of the harness's own matrix it means the harness broke its assumption.
func (cr *caseRun) rawLaws(cmp comparer.Comparer, t []ent, verdict bool) {
	bad := func(sig, msg string) {
		if !verdict {
			panic("harness bug: matrix comparer " + cmp.Name() + " breaks the Comparer contract: " + msg)
		}
		cr.fail("bytewise:"+sig, msg, nil)
	}
	tag := "matrix_comparer_selfcheck_"
	if verdict {
		tag = "bytewise_"
	}
	for x := range t {
		for y := range t {
			a, b := t[x].u, t[y].u
			if verdict {
				cr.law("bytewise-compare")
				if sign(cmp.Compare(a, b)) != bytes.Compare(a, b) {
					bad("compare", fmt.Sprintf("Compare(%x,%x)=%d, bytes.Compare=%d", a, b, cmp.Compare(a, b), bytes.Compare(a, b)))
				}
			}
			if x == y || cmp.Compare(a, b) >= 0 {
				continue
			}
			var pre []byte
			if verdict && cr.r.Intn(3) == 0 { // "appends a sequence of bytes x to dst"
				pre = append(make([]byte, 0, 40), "dst-prefix"[:1+cr.r.Intn(10)]...)
			}
			ac, bc := append([]byte{}, a...), append([]byte{}, b...)
			res := cmp.Separator(pre, ac, bc)
			if verdict {
				cr.law("bytewise-separator")
			}
			if !bytes.Equal(ac, a) || !bytes.Equal(bc, b) {
				bad("separator-modified-input", "Separator modified a or b")
			}
			if res == nil {
				cr.n[tag+"separator_nil"]++
				continue
			}
			if !bytes.HasPrefix(res, pre) {
				bad("separator-dst", fmt.Sprintf("Separator(dst=%q,%x,%x)=%x does not extend dst", pre, a, b, res))
				continue
			}
			sep := res[len(pre):]
			if len(sep) < len(a) {
				cr.n[tag+"separator_shortened"]++
			} else {
				cr.n[tag+"separator_unshortened"]++
			}
			if len(pre) > 0 {
				cr.n[tag+"separator_with_dst_prefix"]++
			}
			if cmp.Compare(a, sep) > 0 {
				bad("separator-below-a", fmt.Sprintf("Separator(%x,%x)=%x sorts before a", a, b, sep))
			}
			if cmp.Compare(sep, b) >= 0 {
				bad("separator-not-below-b", fmt.Sprintf("Separator(%x,%x)=%x does not sort before b", a, b, sep))
			}
		}
	}
	for _, e := range t {
		var pre []byte
		if verdict && cr.r.Intn(3) == 0 {
			pre = append(make([]byte, 0, 40), "dst-prefix"[:1+cr.r.Intn(10)]...)
		}
		bc := append([]byte{}, e.u...)
		res := cmp.Successor(pre, bc)
		if verdict {
			cr.law("bytewise-successor")
		}
		if !bytes.Equal(bc, e.u) {
			bad("successor-modified-input", "Successor modified b")
		}
		if res == nil {
			cr.n[tag+"successor_nil"]++
			continue
		}
		if !bytes.HasPrefix(res, pre) {
			bad("successor-dst", fmt.Sprintf("Successor(dst=%q,%x)=%x does not extend dst", pre, e.u, res))
			continue
		}
		suc := res[len(pre):]
		if len(suc) < len(e.u) {
			cr.n[tag+"successor_shortened"]++
		} else {
			cr.n[tag+"successor_unshortened"]++
		}
		if cmp.Compare(suc, e.u) < 0 {
			bad("successor-below-b", fmt.Sprintf("Successor(%x)=%x sorts before b", e.u, suc))
		}
	}
}

// padInsensitive is a valid but non-injective comparer: trailing 0x00 bytes are ignored, so a
// shorter string can compare equal to a longer one; its Separator returns the stripped form of a
// (a <= sep < b holds: sep equals a under the order); its Successor likewise.
type padInsensitive struct{}

func trimPad(b []byte) []byte {
	for len(b) > 0 && b[len(b)-1] == 0 {
		b = b[:len(b)-1]
	}
	return b
}
func (padInsensitive) Compare(a, b []byte) int { return bytes.Compare(trimPad(a), trimPad(b)) }
func (padInsensitive) Name() string            { return "verif.PadInsensitive" }
func (padInsensitive) Separator(dst, a, b []byte) []byte {
	if t := trimPad(a); len(t) < len(a) {
		return append(dst, t...)
	}
	return nil
}
// Successor returns the stripped form of b when that is shorter: legal (it compares equal to b, and the
// contract only asks for >= b), and exactly the case in which the internal comparer must NOT accept the
// shortened key (appending the maximal number to an *equal* user key gives a key that sorts before b).
func (padInsensitive) Successor(dst, b []byte) []byte {
	if t := trimPad(b); len(t) < len(b) {
		return append(dst, t...)
	}
	return nil
}

func runCase(c *wk.Ctx, i int) {
	r := c.Rand(i)
	cmps := append(append([]comparer.Comparer{}, model.Comparers...), padInsensitive{})
	ucmp := cmps[i%len(cmps)]
	ntr := c.Pick(12000, 16000)
	cr := &caseRun{c: c, i: i, r: r, ucmp: ucmp, icmp: leveldb.VerifInternalComparer(ucmp), n: map[string]int64{}}
	cr.kg = model.NewKeyGen(r, 60+r.Intn(340))
	c.Begin(i, fmt.Sprintf("comparer=%s triples=%d", ucmp.Name(), ntr))
	var sample []string
	for cr.trip = 0; cr.trip < ntr && !cr.bad; cr.trip++ {
		ux := cr.kg.Pick(r)
		if r.Intn(4) == 0 {
			ux = mutate(r, ux)
		}
		x := mk(ux, seqPick(r), uint(r.Intn(2)))
		y := mk(cr.relUkey(x.u), cr.relSeq(x.seq), uint(r.Intn(2)))
		z := mk(cr.relUkey(x.u, y.u), cr.relSeq(x.seq, y.seq), uint(r.Intn(2)))
		t := []ent{x, y, z}
		cr.cur = t
		c.Guard(i, "internal comparer laws", func() {
			cr.orderLaws(t)
			cr.probeLaws(t)
			cr.shortenLaws(t)
			cr.rawLaws(comparer.DefaultComparer, t, true)
		})
		if ucmp != comparer.Comparer(comparer.DefaultComparer) {
			cr.rawLaws(ucmp, t, false) // a panic here is a harness bug, deliberately not guarded
		}
		if cr.trip < 2 {
			sample = append(sample, fmt.Sprintf("%v %v %v", x, y, z))
		}
	}
	c.Eval()
	c.Count("triples", int64(cr.trip))
	c.Count("triples:"+ucmp.Name(), int64(cr.trip))
	c.Count("law_instances", cr.laws)
	for k, v := range cr.n {
		c.Count(k, v)
	}
	if !cr.bad && cr.n["same_user_key_pairs"] > 0 && cr.n["transitive_strict_instances"] > 0 &&
		cr.n["internal_separator_nil"]+cr.n["internal_separator_shortened"] > 0 && cr.n["probe_vs_newer_entry"] > 0 {
		c.Nontrivial(fmt.Sprintf("case-%d", i))
	}
	if !cr.bad && c.WantSample() {
		c.Sample(map[string]interface{}{"case": i, "comparer": ucmp.Name(), "triples": cr.trip, "law_instances": cr.laws,
			"first_triples": sample, "separators": map[string]int64{"nil": cr.n["internal_separator_nil"], "shortened": cr.n["internal_separator_shortened"], "unshortened": cr.n["internal_separator_unshortened"]}})
	}
}

func run(c *wk.Ctx) {
	n := c.Pick(210, 2100)
	for i := 0; i < n; i++ {
		if c.Mine(i) {
			runCase(c, i)
		}
	}
}
