// Worker for C09: no call blocks forever and Close always returns (bounded progress).
// Several clients use one DB while a fault plan is armed and Close is issued at a
// seeded instant; every call runs under a watchdog whose firing triggers the hang
// inspector (two goroutine dumps); only a stable blocked state is a verdict.
package main

import (
	"fmt"
	"encoding/json"
	"math/rand"
	os2 "os"
	"regexp"
	"strconv"
	"runtime/debug"
	"strings"
	"sync"
	"sync/atomic"
	"time"

	"github.com/syndtr/goleveldb/leveldb"
	"github.com/syndtr/goleveldb/leveldb/cache"
	"github.com/syndtr/goleveldb/leveldb/opt"
	"github.com/syndtr/goleveldb/leveldb/storage"
	"github.com/syndtr/goleveldb/leveldb/util"

	"verif/hang"
	"verif/model"
	"verif/vstor"
	"verif/wk"
)

func main() { wk.Main("C09", run) }

type call struct {
	api   string
	gid   int64
	since int64 // unix nano; 0 = idle
}

type client struct {
	name string
	cur  atomic.Value // *call
	done chan struct{}
}

func (cl *client) begin(api string, gid int64) {
	cl.cur.Store(&call{api: api, gid: gid, since: time.Now().UnixNano()})
}
func (cl *client) end() { cl.cur.Store(&call{}) }

type planT struct {
	kind  vstor.OpKind
	typ   storage.FileType
	count int
	short bool
	desc  string
}

func plans() []planT {
	var out []planT
	add := func(k vstor.OpKind, t storage.FileType, cnt int, short bool) {
		m := "once"
		if cnt == 3 {
			m = "burst3"
		} else if cnt == 8 {
			m = "burst8"
		} else if cnt < 0 {
			m = "until-cleared"
		}
		d := fmt.Sprintf("%s/%s/%s", k, vstor.TypeName(t), m)
		if short {
			d += "/short"
		}
		out = append(out, planT{k, t, cnt, short, d})
	}
	out = append(out, planT{desc: "no-fault"})
	for _, t := range []storage.FileType{storage.TypeJournal, storage.TypeManifest, storage.TypeTable} {
		for _, k := range []vstor.OpKind{vstor.OpCreate, vstor.OpWrite, vstor.OpSync} {
			for _, cnt := range []int{1, 3, 8, -1} {
				add(k, t, cnt, false)
			}
		}
		add(vstor.OpWrite, t, 1, true)
	}
	add(vstor.OpOpen, storage.TypeTable, 3, false)
	add(vstor.OpReadAt, storage.TypeTable, 3, false)
	add(vstor.OpRemove, storage.TypeTable, 3, false)
	add(vstor.OpRemove, storage.TypeJournal, 3, false)
	add(vstor.OpSetMeta, storage.TypeManifest, 1, false)
	return out
}

func run(c *wk.Ctx) {
	ps := plans()
	reps := c.Pick(60, 400)
	n := len(ps) * reps
	for i := 0; i < n; i++ {
		if c.Mine(i) {
			runCase(c, i, ps[i%len(ps)])
		}
	}
	// directed scenario (kept because random schedules found it): Cache.Get evicting a
	// node while Cache.Close waits for the write lock.
	if c.Mine(n) {
		directedCacheRecursion(c, n)
	}
}

func directedCacheRecursion(c *wk.Ctx, i int) {
	c.Begin(i, "directed: Cache.Get evicts a node while Cache.Close is waiting")
	cc := cache.NewCache(cache.NewLRU(1))
	h := cc.Get(0, 1, func() (int, cache.Value) { return 1, "v1" })
	if h == nil {
		return
	}
	h.Release() // only the LRU holds node 1 now
	gate, arrived := make(chan struct{}), make(chan struct{})
	var armed int32 = 1
	cache.SetVerifYield(func(p int) {
		if p == cache.VerifYGetBeforePromote && atomic.CompareAndSwapInt32(&armed, 1, 0) {
			close(arrived)
			<-gate
		}
	})
	defer cache.SetVerifYield(nil)
	var gidA int64
	doneA, doneB := make(chan struct{}), make(chan struct{})
	go func() {
		atomic.StoreInt64(&gidA, hang.GoID())
		if h2 := cc.Get(0, 2, func() (int, cache.Value) { return 1, "v2" }); h2 != nil {
			h2.Release()
		}
		close(doneA)
	}()
	<-arrived
	go func() { cc.Close(false); close(doneB) }()
	// wait until Close is waiting for the Get in flight (it cannot proceed while Get holds the read lock)
	for t := 0; t < 500; t++ {
		_, gs := hang.Dump()
		parked := false
		for _, g := range gs {
			// parked on the write lock (before fix 10db0f9) or polling for the in-flight operations to leave (since)
			if (g.State == "sync.RWMutex.Lock" || g.State == "sleep") && strings.Contains(strings.Join(g.Frames, " "), "cache.(*Cache).Close") {
				parked = true
			}
		}
		if parked {
			break
		}
		time.Sleep(10 * time.Millisecond)
	}
	close(gate)
	c.Eval()
	c.Count("directed_cache_close_scenarios", 1)
	select {
	case <-doneA:
		<-doneB
		c.Nontrivial(fmt.Sprintf("case-%d", i))
		return
	case <-time.After(5 * time.Second):
	}
	v := hang.Inspect(atomic.LoadInt64(&gidA), 2*time.Second, func() int64 { return 0 })
	if !v.Stable {
		c.Inconclusive("directed cache scenario: " + v.Reason)
		return
	}
	sig := "hang:Cache.Get@" + v.Parked
	if root := cacheRecursion(v.Dump2); root != "" {
		sig = "hang:cache-recursive-rlock:" + root
	}
	c.Violation(i, sig, "directed scenario: Cache.Get (LRU capacity 1) evicting a node while Cache.Close waits for the write lock never returns: parked in "+v.Parked+" ["+v.ParkedIn+"]", map[string]interface{}{"verdict": v})
}

var watchdog = 20 * time.Second

func logTail(st *vstor.Stor, n int) []string {
	lg := st.Logs()
	if len(lg) > n {
		lg = lg[len(lg)-n:]
	}
	var out []string
	for _, l := range lg {
		out = append(out, l.Text)
	}
	return out
}

var retryRe = regexp.MustCompile(`^(\S+) retrying N·(\d+)$`)
var errRe = regexp.MustCompile(`^(\S+) error I·\d+ (".*")$`)

// livelock recognises a retry loop that keeps failing after the faults were disarmed:
// among the last log lines there are >= 3 "<name> retrying N·k" lines with growing k
// and >= 3 "<name> error ... <same error text>" lines, nothing was committed, and the
// caller is parked in goleveldb. It returns "<name>" of the looping transact.
func livelock(st *vstor.Stor, v hang.Verdict) string {
	if v.Parked == "" {
		return ""
	}
	lg := logTail(st, 40)
	name, errtxt := "", ""
	retries, errs, lastN := 0, 0, int64(-1)
	for _, l := range lg {
		if strings.Contains(l, "committed") || strings.Contains(l, "exiting") {
			return ""
		}
		if m := retryRe.FindStringSubmatch(l); m != nil {
			n, _ := strconv.ParseInt(m[2], 10, 64)
			if name != "" && name != m[1] || n <= lastN {
				return ""
			}
			name, lastN = m[1], n
			retries++
		} else if m := errRe.FindStringSubmatch(l); m != nil {
			if errtxt != "" && errtxt != m[2] {
				return ""
			}
			errtxt = m[2]
			errs++
		}
	}
	if retries < 3 || errs < 3 || lastN < 20 {
		return ""
	}
	return name
}

// cacheRecursion recognises the recursive read-lock deadlock of the cache in a dump:
// a goroutine parked in (*Node).unRefExternal [RLock] underneath a Cache method that
// already holds the read lock, while Cache.Close waits for the write lock.
func cacheRecursion(dump []string) string {
	txt := strings.Join(dump, "\n")
	if !strings.Contains(txt, "cache.(*Cache).Close") {
		return ""
	}
	for _, blk := range strings.Split(txt, "\n\n") {
		if !strings.Contains(blk, "sync.RWMutex.RLock") || !strings.Contains(blk, "cache.(*Node).unRefExternal") {
			continue
		}
		i := strings.Index(blk, "cache.(*Node).unRefExternal")
		rest := blk[i:]
		for _, outer := range []string{"Get", "Delete", "Evict", "EvictNS", "EvictAll", "SetCapacity"} {
			if strings.Contains(rest, "cache.(*Cache)."+outer+"(") {
				return "Cache." + outer
			}
		}
	}
	return ""
}

func runCase(c *wk.Ctx, i int, p planT) {
	r := c.Rand(i)
	if !c.Quick() {
		watchdog = 45 * time.Second
	}
	os := model.RandomOptions(r, model.OptConstraints{DefaultComparer: true})
	os.O.WriteBuffer = []int{1 << 10, 2 << 10, 4 << 10}[r.Intn(3)]
	os.O.OpenFilesCacheCapacity = 1 + r.Intn(2)
	os.Desc["WriteBuffer"], os.Desc["OpenFilesCacheCapacity"] = os.O.WriteBuffer, os.O.OpenFilesCacheCapacity
	closeBusy := r.Intn(2) == 0
	c.Begin(i, fmt.Sprintf("plan=%s closeBusy=%v opts=%v", p.desc, closeBusy, os.Desc))
	st := vstor.New(false)
	db, err := leveldb.Open(st, os.Clone())
	if err != nil {
		c.Violation(i, "open-failed", err.Error(), nil)
		return
	}
	kg := model.NewKeyGen(r, 60+r.Intn(100))
	var (
		stop      int32 // clients stop issuing
		phase     int32 // 0 busy, 1 after faults stopped
		counts    sync.Map
		cnt       = func(k string) { v, _ := counts.LoadOrStore(k, new(int64)); atomic.AddInt64(v.(*int64), 1) }
		clients   []*client
		postOps   int64
	)
	classify := func(err error) string {
		switch {
		case err == nil:
			return "ok"
		case err == leveldb.ErrNotFound:
			return "notfound"
		case err == leveldb.ErrClosed:
			return "closed"
		case err == leveldb.ErrReadOnly:
			return "readonly"
		case strings.Contains(err.Error(), "injected"):
			return "injected-error"
		default:
			return "other-error"
		}
	}
	spawn := func(name string, seed int64, body func(cl *client, r *rand.Rand, gid int64)) {
		cl := &client{name: name, done: make(chan struct{})}
		cl.end()
		clients = append(clients, cl)
		go func() {
			defer close(cl.done)
			defer func() {
				if x := recover(); x != nil {
					stk := string(debug.Stack())
					c.Violation(i, "panic:"+wk.PanicSite(stk), fmt.Sprintf("client %s panicked: %v", name, x), map[string]interface{}{"plan": p.desc, "options": os.Desc, "stack": strings.Split(stk, "\n")})
				}
			}()
			gid := hang.GoID()
			rr := rand.New(rand.NewSource(seed))
			for atomic.LoadInt32(&stop) == 0 {
				body(cl, rr, gid)
				if atomic.LoadInt32(&phase) == 1 {
					atomic.AddInt64(&postOps, 1)
				}
			}
		}()
	}
	do := func(cl *client, gid int64, api string, f func() error) error {
		cl.begin(api, gid)
		err := f()
		cl.end()
		cls := classify(err)
		cnt("call:" + api + ":" + cls)
		if cls == "closed" || cls == "readonly" {
			time.Sleep(200 * time.Microsecond) // do not spin on a closed DB
		}
		return err
	}
	nwriters := 1 + r.Intn(3)
	for wi := 0; wi < nwriters; wi++ {
		wi := wi
		spawn(fmt.Sprintf("writer%d", wi), r.Int63(), func(cl *client, rr *rand.Rand, gid int64) {
			wo := &opt.WriteOptions{Sync: rr.Intn(4) == 0}
			switch x := rr.Intn(10); {
			case x < 6:
				do(cl, gid, "Put", func() error { return db.Put(kg.Pick(rr), model.Value(uint32(wi), 0, 0, 10+rr.Intn(200)), wo) })
			case x < 7:
				do(cl, gid, "Delete", func() error { return db.Delete(kg.Pick(rr), wo) })
			default:
				b := new(leveldb.Batch)
				nb := 1 + rr.Intn(10)
				for j := 0; j < nb; j++ {
					b.Put(kg.Pick(rr), model.Value(uint32(wi), 1, uint32(j), 10+rr.Intn(200)))
				}
				api := "Write"
				if rr.Intn(4) == 0 {
					b.Put(kg.Pick(rr), model.Value(uint32(wi), 2, 0, os.O.GetWriteBuffer()+rr.Intn(1000)))
					api = "Write(oversized)"
				}
				do(cl, gid, api, func() error { return db.Write(b, wo) })
			}
		})
	}
	if r.Intn(4) != 0 {
		spawn("transactor", r.Int63(), func(cl *client, rr *rand.Rand, gid int64) {
			var tr *leveldb.Transaction
			if do(cl, gid, "OpenTransaction", func() error { var e error; tr, e = db.OpenTransaction(); return e }) != nil {
				time.Sleep(time.Millisecond)
				return
			}
			nb := 1 + rr.Intn(80)
			for j := 0; j < nb; j++ {
				if do(cl, gid, "Transaction.Put", func() error { return tr.Put(kg.Pick(rr), model.Value(9, 0, uint32(j), 10+rr.Intn(300)), nil) }) != nil {
					break
				}
			}
			if rr.Intn(4) == 0 {
				do(cl, gid, "Discard", func() error { tr.Discard(); return nil })
				return
			}
			err := do(cl, gid, "Commit", func() error { return tr.Commit() })
			for retry := 0; err != nil && retry < 2 && rr.Intn(2) == 0; retry++ {
				err = do(cl, gid, "Commit(retry)", func() error { return tr.Commit() })
			}
			if err != nil {
				do(cl, gid, "Discard(after failed commit)", func() error { tr.Discard(); return nil })
			}
		})
	}
	var closing, liveIters int32
	nreaders := 1 + r.Intn(2)
	for ri := 0; ri < nreaders; ri++ {
		spawn(fmt.Sprintf("reader%d", ri), r.Int63(), func(cl *client, rr *rand.Rand, gid int64) {
			x := rr.Intn(10)
			if x == 0 && atomic.LoadInt32(&closing) != 0 {
				x = 2 // "It is not safe to close a DB until all outstanding iterators are released"
			}
			switch x {
			case 0:
				atomic.AddInt32(&liveIters, 1)
				if atomic.LoadInt32(&closing) != 0 {
					atomic.AddInt32(&liveIters, -1)
					return
				}
				defer atomic.AddInt32(&liveIters, -1)
				it := db.NewIterator(nil, nil)
				for n := 0; n < 30; n++ {
					var ok bool
					do(cl, gid, "Iterator.Next", func() error { ok = it.Next(); return nil })
					if !ok {
						break
					}
				}
				do(cl, gid, "Iterator.Release", func() error { it.Release(); return nil })
			case 1:
				do(cl, gid, "Has", func() error { _, e := db.Has(kg.Pick(rr), nil); return e })
			default:
				do(cl, gid, "Get", func() error { _, e := db.Get(kg.Pick(rr), nil); return e })
			}
		})
	}
	if r.Intn(3) == 0 {
		spawn("compactor", r.Int63(), func(cl *client, rr *rand.Rand, gid int64) {
			do(cl, gid, "CompactRange", func() error { return db.CompactRange(util.Range{}) })
			time.Sleep(time.Duration(rr.Intn(3)) * time.Millisecond)
		})
	}

	activity := func() int64 { return st.Touches() + st.Count(vstor.OpLog, 0) }
	// monitor: returns a description of a stuck call, or nil
	var closer client
	closer.name = "closer"
	closer.end()
	stuck := func() (*client, *call) {
		now := time.Now().UnixNano()
		for _, cl := range append(clients, &closer) {
			cc, _ := cl.cur.Load().(*call)
			if cc != nil && cc.since != 0 && now-cc.since > int64(watchdog) {
				return cl, cc
			}
		}
		return nil, nil
	}
	hung, resolved := false, false
	judge := func(cl *client, cc *call, when string) {
		// disarm faults first: a retry loop against an armed fault is not a hang
		st.ClearFaults()
		atomic.StoreInt32(&stop, 1) // the other clients finish their calls and go home (if they can)
		time.Sleep(4 * time.Second) // longer than the 1 s x 3 commit retry timers
		if c2, _ := cl.cur.Load().(*call); c2 == nil || c2.since != cc.since {
			c.Count("watchdog_firings_resolved_by_themselves", 1)
			resolved = true // the clients were sent home above: the case ends here, without a verdict
			return
		}
		v := hang.Inspect(cc.gid, 3*time.Second, activity)
		c.Count("watchdog_firings", 1)
		if !v.Stable {
			if lv := livelock(st, v); lv != "" {
				hung = true
				c.Violation(i, "livelock:"+lv, fmt.Sprintf("%s (%s) never returned (%s) although no fault is armed any more: the background retry loop %s keeps failing with the same error", cc.api, cl.name, when, lv),
					map[string]interface{}{"plan": p.desc, "options": os.Desc, "verdict": v, "db_log_tail": logTail(st, 40)})
				return
			}
			c.Inconclusive("watchdog fired but no stable blocked state: " + v.Reason)
			if c.ReplayDir != "" {
				os2.MkdirAll(c.ReplayDir, 0o755)
				b, _ := json.MarshalIndent(map[string]interface{}{"case": i, "plan": p.desc, "api": cc.api, "when": when, "verdict": v, "db_log_tail": logTail(st, 40)}, "", " ")
				os2.WriteFile(fmt.Sprintf("%s/inconclusive-s%d-c%d.json", c.ReplayDir, c.Seed, i), b, 0o644)
			}
			hung = true // the case cannot be continued either way
			return
		}
		hung = true
		others := strings.Join(v.Others, "; ")
		sig := fmt.Sprintf("hang:%s@%s", cc.api, v.Parked)
		if root := cacheRecursion(v.Dump2); root != "" {
			// whichever victim the watchdog saw first, the cause is the recursive read lock
			sig = "hang:cache-recursive-rlock:" + root
		}
		c.Violation(i, sig, fmt.Sprintf("%s (%s) never returned (%s): parked in %s [%s]; other blocked goleveldb goroutines: %s", cc.api, cl.name, when, v.Parked, v.ParkedIn, others),
			map[string]interface{}{"plan": p.desc, "options": os.Desc, "verdict": v, "close_while_busy": closeBusy})
	}
	waitFor := func(cond func() bool, when string) bool {
		for {
			if cond() {
				return true
			}
			if cl, cc := stuck(); cl != nil {
				judge(cl, cc, when)
				if hung || resolved {
					return false
				}
			}
			time.Sleep(5 * time.Millisecond)
		}
	}
	totalCalls := func() int64 {
		var n int64
		counts.Range(func(k, v interface{}) bool { n += atomic.LoadInt64(v.(*int64)); return true })
		return n
	}
	// phase A: warm up, arm the fault, run
	target := totalCalls() + int64(50+r.Intn(400))
	ok := waitFor(func() bool { return totalCalls() >= target }, "warm-up")
	var flt *vstor.Fault
	if ok && p.desc != "no-fault" {
		flt = st.AddFault(vstor.Fault{Kind: p.kind, Type: p.typ, Nth: 1 + r.Intn(3), Count: p.count, Short: p.short})
		target = totalCalls() + int64(100+r.Intn(600))
		ok = waitFor(func() bool { return totalCalls() >= target }, "with the fault armed")
	}
	if ok && r.Intn(4) == 0 {
		closer.begin("SetReadOnly", 0)
		rdone := make(chan error, 1)
		go func() {
			closer.cur.Store(&call{api: "SetReadOnly", gid: hang.GoID(), since: time.Now().UnixNano()})
			rdone <- db.SetReadOnly()
		}()
		returned := false
		ok = waitFor(func() bool {
			select {
			case err := <-rdone:
				returned = true
				closer.end()
				cnt("call:SetReadOnly:" + classify(err))
			default:
			}
			return returned
		}, "SetReadOnly while busy")
		c.Count("set_read_only_while_busy", 1)
	}
	if ok && closeBusy {
		// Close while everything is busy (and possibly while the fault is still armed);
		// iterators are released first, as the documentation requires.
		atomic.StoreInt32(&closing, 1)
		ok = waitFor(func() bool { return atomic.LoadInt32(&liveIters) == 0 }, "iterators being released before Close")
		closer.begin("Close", 0)
		cdone := make(chan error, 1)
		if ok {
			go func() { closer.cur.Store(&call{api: "Close", gid: hang.GoID(), since: time.Now().UnixNano()}); cdone <- db.Close() }()
		} else {
			closer.end()
		}
		closed := false
		ok = ok && waitFor(func() bool {
			select {
			case <-cdone:
				closed = true
				closer.end()
			default:
			}
			return closed
		}, "Close while busy")
		c.Count("close_while_busy", 1)
	} else if ok {
		st.ClearFaults()
		atomic.StoreInt32(&phase, 1)
		// once injected failures stop, calls are served again (or fail immediately): 50 more per client
		want := int64(50 * len(clients))
		ok = waitFor(func() bool { return atomic.LoadInt64(&postOps) >= want }, "after the faults stopped")
		if ok {
			c.Count("post_fault_service_rounds", 1)
		}
	}
	atomic.StoreInt32(&stop, 1)
	if ok {
		// every client must come home
		ok = waitFor(func() bool {
			for _, cl := range clients {
				select {
				case <-cl.done:
				default:
					return false
				}
			}
			return true
		}, "clients finishing")
	}
	if ok && !closeBusy {
		closer.begin("Close", 0)
		cdone := make(chan error, 1)
		go func() { closer.cur.Store(&call{api: "Close", gid: hang.GoID(), since: time.Now().UnixNano()}); cdone <- db.Close() }()
		closed := false
		ok = waitFor(func() bool {
			select {
			case <-cdone:
				closed = true
				closer.end()
			default:
			}
			return closed
		}, "final Close")
	}
	st.ClearFaults()
	st.ReleaseGates()
	c.Eval()
	counts.Range(func(k, v interface{}) bool { c.Count(k.(string), atomic.LoadInt64(v.(*int64))); return true })
	c.Count("plan:"+p.desc, 1)
	if flt != nil && flt.Hits > 0 {
		c.Count("faults_hit", 1)
		c.Distinct("fault_cells_hit", p.desc)
	}
	if ok && !hung {
		c.Nontrivial(fmt.Sprintf("case-%d", i))
		if c.WantSample() {
			m := map[string]int64{}
			counts.Range(func(k, v interface{}) bool { m[k.(string)] = atomic.LoadInt64(v.(*int64)); return true })
			c.Sample(map[string]interface{}{"case": i, "plan": p.desc, "close_while_busy": closeBusy, "clients": len(clients), "calls": m})
		}
	}
}
