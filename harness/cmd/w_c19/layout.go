package main

import (
	"encoding/binary"
	"errors"
	"fmt"
	"sort"
	"strings"

	"github.com/golang/snappy"
)

// A small, independent parser of the table file format (footer, metaindex,
// index, data blocks). It is only ever applied to the *undamaged* image, to name
// the region an altered byte falls into and to describe the layout in the
// evidence (blocks per table, shortened index keys).

const (
	footerLen  = 48
	trailerLen = 5
	tableMagic = "\x57\xfb\x80\x8b\x24\x75\x47\xdb"
)

type bh struct{ off, length int }

type region struct {
	lo, hi int // [lo, hi)
	name   string
	block  int // data block number, -1 otherwise
}

type entry struct {
	key, value []byte
}

type dataBlock struct {
	h          bh
	compressed bool
	nEntries   int
	nRestarts  int
	first      int // index of its first entry in the table's entry list
}

type layout struct {
	size      int
	meta      bh
	index     bh
	filter    bh
	hasFilter bool
	filterKey string
	data      []dataBlock
	indexKeys [][]byte
	entries   []entry // all data entries in file order
	regions   []region
	tiled     bool
}

func uvar(b []byte) (int, int, error) {
	v, n := binary.Uvarint(b)
	if n <= 0 || v > 1<<40 {
		return 0, 0, errors.New("bad varint")
	}
	return int(v), n, nil
}

func decodeBH(b []byte) (bh, int, error) {
	o, n, err := uvar(b)
	if err != nil {
		return bh{}, 0, err
	}
	l, m, err := uvar(b[n:])
	if err != nil {
		return bh{}, 0, err
	}
	return bh{o, l}, n + m, nil
}

// rawBlock returns the decoded content of a block and its type byte.
func rawBlock(img []byte, h bh) (content []byte, typ byte, err error) {
	if h.off < 0 || h.length < 0 || h.off+h.length+trailerLen > len(img) {
		return nil, 0, fmt.Errorf("block handle %v outside the file (%d bytes)", h, len(img))
	}
	typ = img[h.off+h.length]
	raw := img[h.off : h.off+h.length]
	switch typ {
	case 0:
		return raw, typ, nil
	case 1:
		d, err := snappy.Decode(nil, raw)
		return d, typ, err
	}
	return nil, typ, fmt.Errorf("unknown block type %d", typ)
}

// parseEntries decodes a prefix-compressed block.
func parseEntries(d []byte) (es []entry, nRestarts int, err error) {
	if len(d) < 8 {
		return nil, 0, errors.New("block too short")
	}
	nRestarts = int(binary.LittleEndian.Uint32(d[len(d)-4:]))
	ro := len(d) - 4*(nRestarts+1)
	if nRestarts < 1 || ro < 0 {
		return nil, 0, errors.New("bad restart count")
	}
	var prev []byte
	for off := 0; off < ro; {
		sh, n0, e := uvar(d[off:ro])
		if e != nil {
			return nil, 0, e
		}
		ns, n1, e := uvar(d[off+n0 : ro])
		if e != nil {
			return nil, 0, e
		}
		vl, n2, e := uvar(d[off+n0+n1 : ro])
		if e != nil {
			return nil, 0, e
		}
		p := off + n0 + n1 + n2
		if sh > len(prev) || p+ns+vl > ro {
			return nil, 0, errors.New("entry overruns block")
		}
		k := append(append([]byte{}, prev[:sh]...), d[p:p+ns]...)
		v := append([]byte{}, d[p+ns:p+ns+vl]...)
		es = append(es, entry{k, v})
		prev = k
		off = p + ns + vl
	}
	return es, nRestarts, nil
}

func parseLayout(img []byte) (lay *layout, err error) {
	defer func() {
		if x := recover(); x != nil {
			lay, err = nil, fmt.Errorf("layout parser panicked: %v", x)
		}
	}()
	if len(img) < footerLen {
		return nil, errors.New("file shorter than a footer")
	}
	l := &layout{size: len(img)}
	fpos := len(img) - footerLen
	foot := img[fpos:]
	if string(foot[footerLen-8:]) != tableMagic {
		return nil, errors.New("bad magic")
	}
	var n, m int
	if l.meta, n, err = decodeBH(foot); err != nil {
		return nil, err
	}
	if l.index, m, err = decodeBH(foot[n:]); err != nil {
		return nil, err
	}
	add := func(lo, hi int, name string, blk int) {
		if hi > lo {
			l.regions = append(l.regions, region{lo, hi, name, blk})
		}
	}
	add(fpos, fpos+n+m, "footer-handles", -1)
	add(fpos+n+m, fpos+footerLen-8, "footer-padding", -1)
	add(fpos+footerLen-8, fpos+footerLen, "footer-magic", -1)

	blockRegions := func(h bh, prefix string, blk int, restartBytes int) {
		add(h.off, h.off+h.length-restartBytes, prefix+"-payload", blk)
		add(h.off+h.length-restartBytes, h.off+h.length, prefix+"-restarts", blk)
		add(h.off+h.length, h.off+h.length+1, prefix+"-type", blk)
		add(h.off+h.length+1, h.off+h.length+trailerLen, prefix+"-crc", blk)
	}

	// metaindex
	md, mtyp, err := rawBlock(img, l.meta)
	if err != nil {
		return nil, fmt.Errorf("metaindex: %v", err)
	}
	mes, mnr, err := parseEntries(md)
	if err != nil {
		return nil, fmt.Errorf("metaindex: %v", err)
	}
	rb := 0
	if mtyp == 0 {
		rb = 4 * (mnr + 1)
	}
	blockRegions(l.meta, "metaindex", -1, rb)
	for _, e := range mes {
		if strings.HasPrefix(string(e.key), "filter.") {
			h, _, err := decodeBH(e.value)
			if err != nil {
				return nil, fmt.Errorf("filter handle: %v", err)
			}
			l.filter, l.hasFilter, l.filterKey = h, true, string(e.key)
			// the filter block has its own trailer structure, not a restart array
			add(h.off, h.off+h.length, "filter-payload", -1)
			add(h.off+h.length, h.off+h.length+1, "filter-type", -1)
			add(h.off+h.length+1, h.off+h.length+trailerLen, "filter-crc", -1)
		}
	}
	// index
	id, ityp, err := rawBlock(img, l.index)
	if err != nil {
		return nil, fmt.Errorf("index: %v", err)
	}
	ies, inr, err := parseEntries(id)
	if err != nil {
		return nil, fmt.Errorf("index: %v", err)
	}
	rb = 0
	if ityp == 0 {
		rb = 4 * (inr + 1)
	}
	blockRegions(l.index, "index", -1, rb)
	for bi, e := range ies {
		h, _, err := decodeBH(e.value)
		if err != nil {
			return nil, fmt.Errorf("data handle %d: %v", bi, err)
		}
		dd, dtyp, err := rawBlock(img, h)
		if err != nil {
			return nil, fmt.Errorf("data block %d: %v", bi, err)
		}
		des, dnr, err := parseEntries(dd)
		if err != nil {
			return nil, fmt.Errorf("data block %d: %v", bi, err)
		}
		l.indexKeys = append(l.indexKeys, e.key)
		l.data = append(l.data, dataBlock{h: h, compressed: dtyp == 1, nEntries: len(des), nRestarts: dnr, first: len(l.entries)})
		l.entries = append(l.entries, des...)
		if dtyp == 1 {
			add(h.off, h.off+h.length, "data-compressed", bi)
			add(h.off+h.length, h.off+h.length+1, "data-type", bi)
			add(h.off+h.length+1, h.off+h.length+trailerLen, "data-crc", bi)
		} else {
			blockRegions(h, "data", bi, 4*(dnr+1))
		}
	}
	sort.Slice(l.regions, func(i, j int) bool { return l.regions[i].lo < l.regions[j].lo })
	l.tiled = true
	pos := 0
	for _, rg := range l.regions {
		if rg.lo != pos {
			l.tiled = false
		}
		pos = rg.hi
	}
	if pos != len(img) {
		l.tiled = false
	}
	return l, nil
}

// regionAt names the region of a byte position.
func (l *layout) regionAt(p int) region {
	i := sort.Search(len(l.regions), func(i int) bool { return l.regions[i].hi > p })
	if i < len(l.regions) && l.regions[i].lo <= p {
		return l.regions[i]
	}
	return region{p, p + 1, "gap", -1}
}

// blockOfEntry returns the data block number holding entry j.
func (l *layout) blockOfEntry(j int) int {
	i := sort.Search(len(l.data), func(i int) bool { return l.data[i].first > j })
	return i - 1
}

func blocksBucket(n int) string {
	switch {
	case n <= 1:
		return "1"
	case n <= 3:
		return "2-3"
	case n <= 9:
		return "4-9"
	case n <= 31:
		return "10-31"
	case n <= 99:
		return "32-99"
	case n <= 499:
		return "100-499"
	}
	return "500+"
}

// coarse maps a detailed region name to the classes listed in the design.
func coarse(name string) string {
	switch {
	case name == "data-payload":
		return "data-entries"
	case name == "data-compressed":
		return "data-compressed-payload"
	case name == "data-restarts":
		return "data-restart-array"
	case name == "data-type":
		return "data-trailer-type"
	case name == "data-crc":
		return "data-trailer-crc"
	case strings.HasPrefix(name, "filter"):
		return "filter-block"
	case strings.HasPrefix(name, "metaindex"):
		return "metaindex-block"
	case strings.HasPrefix(name, "index"):
		return "index-block"
	case strings.HasPrefix(name, "footer"):
		return "footer"
	}
	return name
}
