// Worker for C19: Recover rebuilds the DB from its table and journal files.
package main

import (
	"bytes"
	"fmt"

	"github.com/syndtr/goleveldb/leveldb"
	"github.com/syndtr/goleveldb/leveldb/storage"
	"github.com/syndtr/goleveldb/leveldb/util"

	"verif/dbx"
	"verif/lsm"
	"verif/model"
	"verif/vstor"
	"verif/wk"
)

func main() { wk.Main("C19", run) }

func run(c *wk.Ctx) {
	n := c.Pick(2400, 24000)
	for i := 0; i < n; i++ {
		if c.Mine(i) {
			runCase(c, i)
			c.Eval()
		}
	}
}

type ver struct {
	seq     uint64
	del     bool
	val     []byte
	table   int64
	block   int
	damaged bool
}

func runCase(c *wk.Ctx, i int) {
	r := c.Rand(i)
	os := model.RandomOptions(r, model.OptConstraints{})
	nkeys := 40 + r.Intn(400)
	nops := 100 + r.Intn(c.Pick(1200, 2500))
	bigKeys := i%8 == 5
	if bigKeys {
		nkeys, nops = 30+r.Intn(120), 100+r.Intn(400)
		os.Desc["keys_of_several_KiB"] = true
		c.Count("states_with_keys_of_several_KiB", 1)
	}
	c.Begin(i, fmt.Sprintf("opts=%v nkeys=%d nops=%d", os.Desc, nkeys, nops))
	wit := map[string]interface{}{"options": os.Desc}
	// ---- a settled state after a clean shutdown
	var ru *dbx.Runner
	var berr error
	if c.Guard(i, "state building", func() {
		ru, berr = dbx.NewRunnerBig(r, os, nkeys, false, bigKeys)
		if berr != nil {
			return
		}
		for n := 0; n < nops; n++ {
			if berr = ru.Step(); berr != nil {
				return
			}
		}
		// The property is about a clean, *settled* shutdown: background work has finished and obsolete
		// tables are gone (a Close that aborts a compaction leaves superseded tables behind, and Recover
		// by design takes every table it finds).
		if r.Intn(2) == 0 {
			ru.DB.CompactRange(util.Range{}) // fully compacted, nothing in the journal
		}
		if berr = leveldb.VerifBarrier(ru.DB); berr != nil {
			return
		}
		berr = ru.Close()
		if berr == nil && r.Intn(3) == 0 {
			// the DB was opened and closed once more without writing: its only journal is
			// empty and younger than every table
			var db2 *leveldb.DB
			if db2, berr = leveldb.Open(ru.Stor, ru.OS.Clone()); berr == nil {
				berr = db2.Close()
			}
			c.Count("states_reopened_once_without_writing", 1)
		}
	}) {
		return
	}
	if berr != nil {
		c.Violation(i, "state-building-failed", berr.Error(), wit)
		return
	}
	st := ru.Stor
	M := ru.M
	// ---- ground truth: every entry of every table with its block
	truth := map[string][]ver{}
	type tinfo struct {
		num int64
		img []byte
		lay *layout
	}
	var tables []tinfo
	journals := 0
	for _, f := range st.Files() {
		switch f.Fd.Type {
		case storage.TypeJournal:
			if f.Size > 0 {
				journals++
			}
		case storage.TypeTable:
			img, _ := st.ReadFile(f.Fd)
			lay, err := parseLayout(img)
			if err != nil {
				c.Violation(i, "harness-cannot-parse-table", fmt.Sprintf("table %d: %v", f.Fd.Num, err), wit)
				return
			}
			tables = append(tables, tinfo{f.Fd.Num, img, lay})
			for j, e := range lay.entries {
				uk, seq, kt, perr := leveldb.VerifParseInternalKey(e.key)
				if perr != nil {
					continue
				}
				truth[string(uk)] = append(truth[string(uk)], ver{seq: seq, del: kt == 0, val: e.value, table: f.Fd.Num, block: lay.blockOfEntry(j)})
			}
		}
	}
	c.Count("states", 1)
	c.Count("tables_in_states", int64(len(tables)))
	if journals > 0 {
		c.Count("states_with_journal_data", 1)
	}
	// ---- damage
	mode := i % 5 // 0,1: manifest/CURRENT only; 2,3,4: plus damaged table blocks
	manifestHow := []string{"missing", "truncated", "garbage", "intact"}[r.Intn(4)]
	currentHow := []string{"ok", "missing", "dangling"}[r.Intn(3)]
	for _, f := range st.Files() {
		if f.Fd.Type != storage.TypeManifest {
			continue
		}
		data, _ := st.ReadFile(f.Fd)
		switch manifestHow {
		case "missing":
			st.DeleteFile(f.Fd)
		case "truncated":
			if len(data) > 0 {
				st.PutFile(f.Fd, data[:r.Intn(len(data))])
			}
		case "garbage":
			g := make([]byte, len(data)+r.Intn(50))
			r.Read(g)
			st.PutFile(f.Fd, g)
		}
	}
	switch currentHow {
	case "missing":
		st.SetMetaRaw(storage.FileDesc{}, false)
	case "dangling":
		st.SetMetaRaw(storage.FileDesc{Type: storage.TypeManifest, Num: 999999}, true)
	}
	wit["manifest"], wit["current"] = manifestHow, currentHow
	c.Count("manifest:"+manifestHow, 1)
	c.Count("current:"+currentHow, 1)
	damagedBlocks := 0
	var dmgDesc []string
	if mode >= 2 && len(tables) > 0 {
		nd := 1
		if mode == 3 {
			nd = 2 + r.Intn(6)
		}
		for d := 0; d < nd; d++ {
			t := tables[r.Intn(len(tables))]
			if len(t.lay.data) == 0 {
				continue
			}
			wholeIndex := mode == 4 && d == 0
			var lo, hi int
			if wholeIndex {
				lo, hi = t.lay.index.off, t.lay.index.off+t.lay.index.length+trailerLen
				// everything in this table may be lost
				for k := range truth {
					for vi := range truth[k] {
						if truth[k][vi].table == t.num {
							truth[k][vi].damaged = true
						}
					}
				}
				dmgDesc = append(dmgDesc, fmt.Sprintf("table %d index block", t.num))
				c.Count("damage:index-block", 1)
			} else {
				b := r.Intn(len(t.lay.data))
				h := t.lay.data[b].h
				lo, hi = h.off, h.off+h.length+trailerLen
				for k := range truth {
					for vi := range truth[k] {
						if truth[k][vi].table == t.num && truth[k][vi].block == b {
							truth[k][vi].damaged = true
						}
					}
				}
				dmgDesc = append(dmgDesc, fmt.Sprintf("table %d data block %d", t.num, b))
				c.Count("damage:data-block", 1)
			}
			nb := 1 + r.Intn(3)
			for x := 0; x < nb; x++ {
				p := lo + r.Intn(hi-lo)
				t.img[p] ^= byte(1 + r.Intn(255))
			}
			st.PutFile(storage.FileDesc{Type: storage.TypeTable, Num: t.num}, t.img)
			damagedBlocks++
		}
	}
	wit["damage"] = dmgDesc
	// ---- Recover
	var db *leveldb.DB
	var err error
	if c.Guard(i, "Recover", func() { db, err = leveldb.Recover(st, ru.OS.Clone()) }) {
		return
	}
	if err != nil {
		c.Violation(i, "recover-failed", fmt.Sprintf("Recover failed (manifest %s, CURRENT %s, damage %v): %v", manifestHow, currentHow, dmgDesc, err), wit)
		return
	}
	bad := false
	newestDamaged, newestIntact := 0, 0
	c.Guard(i, "reads after Recover", func() {
		check := func(k []byte, got []byte, present bool) bool {
			want, live := M.Get(k)
			vs := truth[string(k)]
			// where does the newest version sit?
			var newest *ver
			for vi := range vs {
				if newest == nil || vs[vi].seq > newest.seq {
					newest = &vs[vi]
				}
			}
			inJournal := newest == nil || newest.del != !live || (live && !bytes.Equal(newest.val, want))
			if inJournal || !newest.damaged {
				newestIntact++
				if live && (!present || !bytes.Equal(got, want)) || !live && present {
					c.Violation(i, "recover-lost-or-changed-entry", fmt.Sprintf("after Recover key %x reads as %x (present=%v) but its newest entry (%s) is undamaged and says %x live=%v", k, got, present, func() string {
						if inJournal {
							return "in the journal"
						}
						return fmt.Sprintf("table %d block %d", newest.table, newest.block)
					}(), want, live), wit)
					return false
				}
				return true
			}
			newestDamaged++
			if !present {
				return true
			}
			// must be one of the key's written values
			if live && bytes.Equal(got, want) {
				return true
			}
			for _, v := range vs {
				if !v.del && bytes.Equal(v.val, got) {
					return true
				}
			}
			c.Violation(i, "recover-invented-value", fmt.Sprintf("after Recover key %x reads as %x which was never written for it", k, got), wit)
			return false
		}
		for _, k := range ru.Keys.Pool {
			got, gerr := db.Get(k, nil)
			if gerr != nil && gerr != leveldb.ErrNotFound {
				c.Violation(i, "read-error-after-recover", fmt.Sprintf("Get(%x) after Recover: %v", k, gerr), wit)
				bad = true
				return
			}
			if !check(k, got, gerr == nil) {
				bad = true
				return
			}
		}
		// iteration: nothing that was never written, consistent with the same rule
		it := db.NewIterator(nil, nil)
		seen := map[string]bool{}
		var prev []byte
		for it.Next() {
			k := append([]byte{}, it.Key()...)
			if prev != nil && os.O.Comparer.Compare(prev, k) >= 0 {
				c.Violation(i, "iteration-order-after-recover", fmt.Sprintf("iteration after Recover yields %x after %x", k, prev), wit)
				bad = true
				break
			}
			prev = k
			seen[string(k)] = true
			if _, known := truth[string(k)]; !known {
				if _, live := M.Get(k); !live && !ru.Used[string(k)] {
					c.Violation(i, "recover-invented-key", fmt.Sprintf("iteration after Recover yields key %x which was never written", k), wit)
					bad = true
					break
				}
			}
			if !check(k, it.Value(), true) {
				bad = true
				break
			}
		}
		if ierr := it.Error(); ierr != nil && !bad {
			c.Violation(i, "read-error-after-recover", "iteration after Recover: "+ierr.Error(), wit)
			bad = true
		}
		it.Release()
		if bad {
			return
		}
		if damagedBlocks == 0 {
			// exactly the same logical contents
			if mm := dbx.FullScan(db.NewIterator(nil, nil), M.Range(nil, nil)); mm != nil {
				c.Violation(i, "recover-contents-differ", "no table damage, yet contents differ after Recover: "+mm.Error(), wit)
				bad = true
				return
			}
			c.Count("exact_equality_checks", 1)
		}
		// the result is an ordinary DB: use it, audit it, reopen it
		m2 := model.NewMap(os.O.Comparer)
		it2 := db.NewIterator(nil, nil)
		for it2.Next() {
			m2.Put(it2.Key(), it2.Value())
		}
		it2.Release()
		for n := 0; n < 120 && !bad; n++ {
			k := ru.Keys.Pick(r)
			switch r.Intn(4) {
			case 0:
				v := model.Value(9, uint32(n), 0, 10+r.Intn(200))
				if err := db.Put(k, v, nil); err != nil {
					c.Violation(i, "unusable-after-recover", "Put: "+err.Error(), wit)
					bad = true
				}
				m2.Put(k, v)
			case 1:
				db.Delete(k, nil)
				m2.Delete(k)
			default:
				want, live := m2.Get(k)
				got, err := db.Get(k, nil)
				if live && (err != nil || !bytes.Equal(got, want)) || !live && err != leveldb.ErrNotFound {
					c.Violation(i, "unusable-after-recover", fmt.Sprintf("Get(%x) = %x,%v want %x live=%v", k, got, err, want, live), wit)
					bad = true
				}
			}
		}
		if bad {
			return
		}
		if r.Intn(2) == 0 {
			// close right away: what was written after Recover lives in the journal only
			if err := db.Close(); err != nil {
				c.Violation(i, "unusable-after-recover", "Close: "+err.Error(), wit)
				bad = true
				return
			}
			db2, err := leveldb.Open(st, ru.OS.Clone())
			if err != nil {
				c.Violation(i, "unusable-after-recover", "Open after Recover+Close: "+err.Error(), wit)
				bad = true
				db = nil
				return
			}
			db = db2
			if mm := dbx.FullScan(db.NewIterator(nil, nil), m2.Range(nil, nil)); mm != nil {
				c.Violation(i, "writes-after-recover-lost", "writes made after Recover are not there after Close + Open: "+mm.Error(), wit)
				bad = true
				return
			}
			c.Count("reopened_right_after_recover_and_writes", 1)
		}
		if err := db.CompactRange(util.Range{}); err != nil {
			c.Violation(i, "unusable-after-recover", "CompactRange: "+err.Error(), wit)
			bad = true
			return
		}
		leveldb.VerifBarrier(db)
		if vv, rel, err := leveldb.VerifPinVersion(db); err == nil {
			probs, _, _ := lsm.Deep(vv, st, os.O.Comparer, false)
			rel()
			if len(probs) > 0 {
				c.Violation(i, "malformed-version-after-recover", probs[0], wit)
				bad = true
				return
			}
			c.Count("deep_audits_after_recover", 1)
		}
		if err := db.Close(); err != nil {
			c.Violation(i, "unusable-after-recover", "Close: "+err.Error(), wit)
			bad = true
			return
		}
		db2, err := leveldb.Open(st, ru.OS.Clone())
		if err != nil {
			c.Violation(i, "unusable-after-recover", "Open after Recover+Close: "+err.Error(), wit)
			bad = true
			db = nil
			return
		}
		db = db2
		if mm := dbx.FullScan(db.NewIterator(nil, nil), m2.Range(nil, nil)); mm != nil {
			c.Violation(i, "unusable-after-recover", "contents after reopen: "+mm.Error(), wit)
			bad = true
		}
	})
	if db != nil {
		c.Guard(i, "Close", func() { db.Close() })
	}
	c.Count("keys_whose_newest_entry_was_intact", int64(newestIntact))
	c.Count("keys_whose_newest_entry_was_damaged", int64(newestDamaged))
	c.Count("damaged_blocks", int64(damagedBlocks))
	for _, l := range st.Logs() {
		switch {
		case len(l.Text) > 24 && l.Text[:24] == "table@recovery rebuildin":
			c.Count("tables_rebuilt_by_recover", 1)
		case len(l.Text) > 24 && l.Text[:24] == "table@recovery unrecover":
			c.Count("tables_unrecoverable", 1)
		}
	}
	if !bad {
		c.Nontrivial(fmt.Sprintf("case-%d", i))
		if c.WantSample() {
			c.Sample(map[string]interface{}{"case": i, "tables": len(tables), "journals_with_data": journals, "manifest": manifestHow, "current": currentHow, "damage": dmgDesc, "options": os.Desc})
		}
	}
	_ = vstor.OpLog
}
