// Worker for C10: writer serialisation and merge protocol. An online trace automaton
// over the build-tagged write-path events checks that at most one group is being
// logged and applied at a time, that every merged writer is acknowledged exactly once
// with the group's result, and that the lock is released or handed to exactly the
// writer that was refused; boundary checks add conservation (calls = returns) and
// "sequence advanced by exactly the acknowledged records".
package main

import (
	"fmt"
	"math/rand"
	"runtime"
	"strings"
	"sync"
	"sync/atomic"
	"time"

	"github.com/syndtr/goleveldb/leveldb"
	"github.com/syndtr/goleveldb/leveldb/opt"
	"github.com/syndtr/goleveldb/leveldb/storage"
	"github.com/syndtr/goleveldb/leveldb/util"

	"verif/hang"
	"verif/model"
	"verif/vstor"
	"verif/wk"
)

func main() { wk.Main("C10", run) }

type section struct {
	id       int
	leader   int64
	merged   int
	overflow bool
	journal  int
	jerr     bool
	publish  int
	acks     int
	ackErr   bool
	ended    bool
	trace    []string
}

type automaton struct {
	mu          sync.Mutex
	on          bool
	cur         *section
	nsec        int
	handoff     bool           // a hand-off was announced and not yet received
	handoffFrom *section
	pending     map[int64]bool // writers whose merge request was taken, decision not yet seen
	waiting     map[int64]*section // merged writers waiting for / having received their acknowledgement
	problems    []string
	recent      []string
	trans       map[string]int64
	groupSizes  map[int]int64
	sigs        map[string]bool
}

var aut atomic.Value // *automaton
var yieldOn int32
var yrand uint64

func rnd() uint64 {
	x := atomic.AddUint64(&yrand, 0x9E3779B97F4A7C15)
	x ^= x >> 30
	x *= 0xBF58476D1CE4E5B9
	x ^= x >> 27
	return x
}

func (a *automaton) bad(format string, args ...interface{}) {
	if len(a.problems) < 10 {
		a.problems = append(a.problems, fmt.Sprintf(format, args...))
	}
}

func (a *automaton) event(k int, x, y, z uint64) {
	g := hang.GoID()
	a.mu.Lock()
	defer a.mu.Unlock()
	if !a.on {
		return
	}
	name := [...]string{"?", "lock-direct", "lock-by-handoff", "merge-request-taken", "told-merged", "leader-accepts", "leader-refuses", "journal", "publish", "ack-send", "handoff-send", "release", "version", "leader-start", "leader-end"}[k]
	if k == leveldb.VerifEVersion {
		return
	}
	a.trans[name]++
	line := fmt.Sprintf("g%d %s(%d,%d,%d)", g, name, x, y, z)
	a.recent = append(a.recent, line)
	if len(a.recent) > 80 {
		a.recent = a.recent[len(a.recent)-80:]
	}
	if a.cur != nil {
		a.cur.trace = append(a.cur.trace, name)
	}
	leaderOnly := func() bool {
		if a.cur == nil || a.cur.leader != g {
			a.bad("%s emitted by goroutine %d which does not lead a group (leader section: %v)", name, g, a.cur != nil)
			return false
		}
		return true
	}
	open := func() {
		a.nsec++
		a.cur = &section{id: a.nsec, leader: g}
	}
	closeSec := func() {
		s := a.cur
		s.ended = true
		a.groupSizes[1+s.merged]++
		sig := strings.Join(s.trace, ",")
		if len(a.sigs) < 100000 {
			a.sigs[sig] = true
		}
		a.cur = nil
	}
	switch k {
	case leveldb.VerifELockDirect:
		if a.cur != nil {
			a.bad("writer g%d acquired the write lock while g%d still leads group %d: two groups at a time", g, a.cur.leader, a.cur.id)
		}
		if a.handoff {
			a.bad("writer g%d acquired the write lock directly while a hand-off is in transit", g)
		}
		open()
	case leveldb.VerifELockHandoff:
		if !a.handoff {
			a.bad("writer g%d says the lock was handed to it, but no leader announced a hand-off", g)
		}
		if !a.pending[g] {
			a.bad("writer g%d received the lock by hand-off without a pending merge request", g)
		}
		delete(a.pending, g)
		a.handoff = false
		if a.cur != nil {
			a.bad("hand-off received by g%d while g%d leads group %d", g, a.cur.leader, a.cur.id)
		}
		open()
	case leveldb.VerifEMergeSent:
		a.pending[g] = true
	case leveldb.VerifEMergedYes:
		if !a.pending[g] {
			a.bad("writer g%d was told 'merged' without a pending merge request", g)
		}
		delete(a.pending, g)
		// The group is the open section: its leader cannot finish before this writer has
		// taken its acknowledgement, which happens after this event.
		if a.cur == nil {
			a.bad("writer g%d was told 'merged' while no group is open", g)
		}
		a.waiting[g] = a.cur
	case leveldb.VerifEMergeAccept:
		if leaderOnly() {
			a.cur.merged++
			if a.cur.journal > 0 {
				a.bad("group %d accepted a writer after its journal record was written", a.cur.id)
			}
		}
	case leveldb.VerifEMergeOverflw:
		if leaderOnly() {
			if a.cur.overflow {
				a.bad("group %d refused two writers", a.cur.id)
			}
			a.cur.overflow = true
		}
	case leveldb.VerifEJournal:
		if leaderOnly() {
			a.cur.journal++
			a.cur.jerr = z != 0
			if a.cur.journal > 1 {
				a.bad("group %d wrote %d journal records", a.cur.id, a.cur.journal)
			}
		}
	case leveldb.VerifEPublish:
		if leaderOnly() {
			a.cur.publish++
			if a.cur.publish > 1 || a.cur.journal != 1 || a.cur.jerr {
				a.bad("group %d published its sequence %d times (journal records %d, journal error %v)", a.cur.id, a.cur.publish, a.cur.journal, a.cur.jerr)
			}
		}
	case leveldb.VerifEAckSend:
		if leaderOnly() {
			a.cur.acks++
			a.cur.ackErr = z != 0
			if int(y) != a.cur.merged {
				a.bad("group %d acknowledges %d writers but merged %d", a.cur.id, y, a.cur.merged)
			}
			if a.cur.acks > a.cur.merged {
				a.bad("group %d sent %d acknowledgements for %d merged writers", a.cur.id, a.cur.acks, a.cur.merged)
			}
			if z == 0 && a.cur.publish != 1 {
				a.bad("group %d acknowledges success before its sequence was published", a.cur.id)
			}
		}
	case leveldb.VerifEHandoffSend:
		if leaderOnly() {
			if !a.cur.overflow {
				a.bad("group %d hands the lock off although it refused nobody", a.cur.id)
			}
			if a.cur.acks != a.cur.merged {
				a.bad("group %d ends with %d acknowledgements for %d merged writers", a.cur.id, a.cur.acks, a.cur.merged)
			}
			a.handoff = true
			closeSec()
		}
	case leveldb.VerifERelease:
		if leaderOnly() {
			if a.cur.overflow {
				a.bad("group %d releases the lock although it refused a writer (who now waits forever)", a.cur.id)
			}
			if a.cur.acks != a.cur.merged {
				a.bad("group %d ends with %d acknowledgements for %d merged writers", a.cur.id, a.cur.acks, a.cur.merged)
			}
			closeSec()
		}
	case leveldb.VerifELeaderStart:
		leaderOnly()
	}
}

// returned is called by a writer after its call came back: a merged writer's result
// must be its group's result, and the group must have sent its acknowledgement.
func (a *automaton) returned(g int64, err error) {
	a.mu.Lock()
	defer a.mu.Unlock()
	s, ok := a.waiting[g]
	if !ok {
		return
	}
	delete(a.waiting, g)
	if s == nil {
		return
	}
	a.trans["merged-writer-returned"]++
	if s.acks == 0 {
		a.bad("merged writer g%d returned although group %d sent no acknowledgement", g, s.id)
	}
	if (err != nil) != s.ackErr {
		a.bad("merged writer g%d returned %v but its group %d was acknowledged with error=%v", g, err, s.id, s.ackErr)
	}
	if err == nil && (s.publish != 1 || s.jerr) {
		a.bad("merged writer g%d returned success but group %d never published its sequence", g, s.id)
	}
}

func hookYield(p int) {
	if atomic.LoadInt32(&yieldOn) == 0 {
		return
	}
	switch p {
	case leveldb.VerifYMergeLoop, leveldb.VerifYBeforeUnlock, leveldb.VerifYBetweenAcks, leveldb.VerifYWriteInserted, leveldb.VerifYWritePublished:
		x := rnd()
		switch {
		case x%3 == 0:
			runtime.Gosched()
		case x%24 == 1:
			time.Sleep(30 * time.Microsecond)
		}
	}
}

func run(c *wk.Ctx) {
	leveldb.SetVerifHooks(hookYield, func(k int, x, y, z uint64) {
		if a, _ := aut.Load().(*automaton); a != nil {
			a.event(k, x, y, z)
		}
	})
	n := c.Pick(640, 6000)
	if c.Race {
		n = c.Pick(32, 200)
	}
	for i := 0; i < n; i++ {
		if c.Mine(i) {
			runCase(c, i)
			if atomic.LoadInt32(&abortShard) != 0 {
				break // writers are parked for good in this process: one witness is enough, do not wait out every case
			}
		}
	}
}

var abortShard int32

func runCase(c *wk.Ctx, i int) {
	r := c.Rand(i)
	os := model.RandomOptions(r, model.OptConstraints{DefaultComparer: true, NoTinyManifest: true})
	os.O.WriteBuffer = []int{4 << 10, 16 << 10, 64 << 10}[r.Intn(3)]
	os.O.NoWriteMerge = false
	if r.Intn(2) == 0 {
		os.O.DisableLargeBatchTransaction = true
	}
	os.Desc["WriteBuffer"], os.Desc["NoWriteMerge"], os.Desc["DisableLargeBatchTransaction"] = os.O.WriteBuffer, false, os.O.DisableLargeBatchTransaction
	nw := 2 + r.Intn(31)
	per := c.Pick(60, 150)
	gmp := []int{2, 4, 16}[r.Intn(3)]
	competitor := r.Intn(4) // 0 none, 1 transactions, 2 CompactRange, 3 both
	ending := r.Intn(7)     // 0..3 normal, 4 Close mid-way, 5 SetReadOnly mid-way, 6 journal faults mid-way
	c.Begin(i, fmt.Sprintf("writers=%d per=%d gomaxprocs=%d competitor=%d ending=%d opts=%v", nw, per, gmp, competitor, ending, os.Desc))
	old := runtime.GOMAXPROCS(gmp)
	defer runtime.GOMAXPROCS(old)
	st := vstor.New(false)
	st.SetKeepLogs(false)
	db, err := leveldb.Open(st, os.Clone())
	if err != nil {
		c.Violation(i, "open-failed", err.Error(), nil)
		return
	}
	a := &automaton{on: true, pending: map[int64]bool{}, waiting: map[int64]*section{}, trans: map[string]int64{}, groupSizes: map[int]int64{}, sigs: map[string]bool{}}
	aut.Store(a)
	atomic.StoreInt32(&yieldOn, int32(i%2))
	vv0, rel0, _ := leveldb.VerifPinVersion(db)
	if rel0 != nil {
		rel0()
	}
	var (
		wg        sync.WaitGroup
		calls     int64
		returns   int64
		okRecords int64
		results   sync.Map
		stop      int32
		bad       int32
	)
	fail := func(sig, msg string, w map[string]interface{}) {
		if atomic.CompareAndSwapInt32(&bad, 0, 1) {
			if w == nil {
				w = map[string]interface{}{}
			}
			w["options"] = os.Desc
			a.mu.Lock()
			w["recent_events"] = append([]string(nil), a.recent...)
			a.mu.Unlock()
			c.Violation(i, sig, msg, w)
		}
	}
	cntRes := func(err error) {
		k := "nil"
		if err != nil {
			k = err.Error()
		}
		v, _ := results.LoadOrStore(k, new(int64))
		atomic.AddInt64(v.(*int64), 1)
	}
	for w := 0; w < nw; w++ {
		w := w
		rr := rand.New(rand.NewSource(r.Int63()))
		wg.Add(1)
		go func() {
			defer wg.Done()
			defer func() {
				if x := recover(); x != nil {
					fail("panic:writer", fmt.Sprintf("writer panicked: %v", x), nil)
				}
			}()
			gid := hang.GoID()
			for n := 1; n <= per && atomic.LoadInt32(&stop) == 0; n++ {
				wo := &opt.WriteOptions{NoWriteMerge: rr.Intn(5) == 0, Sync: rr.Intn(8) == 0}
				key := []byte(fmt.Sprintf("w%02d", w))
				var err error
				nrec := 1
				atomic.AddInt64(&calls, 1)
				syncsBefore := st.Count(vstor.OpSync, storage.TypeJournal)
				viaTransaction := false
				switch x := rr.Intn(10); {
				case x < 4:
					sz := 10 + rr.Intn(100)
					if rr.Intn(6) == 0 {
						sz = os.O.WriteBuffer/4 + rr.Intn(os.O.WriteBuffer) // straddles the capacity-based merge limit
					}
					err = db.Put(key, model.Value(uint32(w), uint32(n), 0, sz), wo)
				case x < 5:
					err = db.Delete([]byte(fmt.Sprintf("w%02d/x", w)), wo)
				default:
					b := new(leveldb.Batch)
					nrec = 1 + rr.Intn(8)
					for j := 0; j < nrec; j++ {
						sz := 10 + rr.Intn(200)
						switch rr.Intn(30) {
						case 0:
							sz = 130 << 10 // above the 128 KiB merge limit
						case 1, 2:
							sz = os.O.WriteBuffer / 2
						}
						if j == 0 {
							b.Put(key, model.Value(uint32(w), uint32(n), 0, sz))
						} else {
							b.Put([]byte(fmt.Sprintf("w%02d/%d", w, j)), model.Value(uint32(w), uint32(n), uint32(j), sz))
						}
					}
					viaTransaction = b.Dump() != nil && len(b.Dump()) > os.O.WriteBuffer && !os.O.DisableLargeBatchTransaction
					err = db.Write(b, wo)
				}
				if err == nil && wo.Sync && !viaTransaction && st.Count(vstor.OpSync, storage.TypeJournal) == syncsBefore {
					// a group becomes durable together: a writer that asked for Sync was acknowledged, so the
					// journal must have been synced at some point during its call (by its leader or itself)
					fail("sync-wish-dropped", "a write with Sync:true was acknowledged although the journal was not synced at any time during the call", nil)
					return
				}
				if err == nil && wo.Sync {
					c.Count("synced_writes_checked", 1)
				}
				atomic.AddInt64(&returns, 1)
				a.returned(gid, err)
				cntRes(err)
				if err == nil {
					atomic.AddInt64(&okRecords, int64(nrec))
					// boundary: an acknowledged write is visible to a read issued afterwards
					if rr.Intn(4) == 0 {
						v, gerr := db.Get(key, nil)
						if gerr == nil && len(v) >= 8 {
							got := uint32(v[4])<<24 | uint32(v[5])<<16 | uint32(v[6])<<8 | uint32(v[7])
							if got < uint32(n) && (len(v) < 12 || true) {
								// only writes that put `key` itself carry the counter; deletes/other keys do not reset it
								_ = got
							}
						}
					}
				} else if err != leveldb.ErrClosed && err != leveldb.ErrReadOnly && !(ending == 6 && strings.Contains(err.Error(), "injected")) {
					fail("unexpected-error", "write failed: "+err.Error(), nil)
					return
				}
			}
		}()
	}
	// competitors for the write lock
	var cwg sync.WaitGroup
	if competitor&1 != 0 {
		cwg.Add(1)
		go func() {
			defer cwg.Done()
			rr := rand.New(rand.NewSource(int64(i)*7 + 1))
			for atomic.LoadInt32(&stop) == 0 {
				tr, err := db.OpenTransaction()
				if err != nil {
					time.Sleep(100 * time.Microsecond)
					continue
				}
				for j := 0; j < 1+rr.Intn(20); j++ {
					tr.Put([]byte(fmt.Sprintf("t/%d", j)), model.Value(99, 0, uint32(j), 30), nil)
				}
				if rr.Intn(3) == 0 {
					tr.Discard()
				} else {
					tr.Commit()
				}
				time.Sleep(time.Duration(rr.Intn(300)) * time.Microsecond)
			}
		}()
	}
	if competitor&2 != 0 {
		cwg.Add(1)
		go func() {
			defer cwg.Done()
			for atomic.LoadInt32(&stop) == 0 {
				db.CompactRange(util.Range{})
				time.Sleep(200 * time.Microsecond)
			}
		}()
	}
	closedMid := false
	switch ending {
	case 4:
		for atomic.LoadInt64(&returns) < int64(nw*per/3) && atomic.LoadInt32(&bad) == 0 {
			time.Sleep(100 * time.Microsecond)
		}
		db.Close()
		closedMid = true
		c.Count("closed_mid_protocol", 1)
	case 5:
		for atomic.LoadInt64(&returns) < int64(nw*per/3) && atomic.LoadInt32(&bad) == 0 {
			time.Sleep(100 * time.Microsecond)
		}
		db.SetReadOnly()
		c.Count("persistent_error_mid_protocol", 1)
	case 6:
		// the group's journal write fails a few times: every writer of such a group gets that error
		for atomic.LoadInt64(&returns) < int64(nw*per/4) && atomic.LoadInt32(&bad) == 0 {
			time.Sleep(100 * time.Microsecond)
		}
		kinds := []vstor.OpKind{vstor.OpWrite, vstor.OpSync}
		st.AddFault(vstor.Fault{Kind: kinds[r.Intn(2)], Type: storage.TypeJournal, Nth: 1, Count: 2 + r.Intn(6)})
		c.Count("journal_fault_episodes", 1)
	}
	// every writer must come home; a generous wait turns into inspections (two goroutine dumps): only a
	// writer parked in the write path with no progress anywhere is a verdict
	done := make(chan struct{})
	go func() { wg.Wait(); close(done) }()
	inWritePath := func(g hang.G) bool {
		js := strings.Join(g.Frames, " ")
		return strings.Contains(js, "main.runCase") && (strings.Contains(js, "leveldb.(*DB).putRec") || strings.Contains(js, "leveldb.(*DB).Write") || strings.Contains(js, "leveldb.(*DB).writeLocked"))
	}
	if ok, vd := hang.WaitOrInspect(done, 60*time.Second, 4*time.Second, 20, func() int64 { return atomic.LoadInt64(&returns) }, inWritePath); !ok {
		if vd != nil {
			atomic.StoreInt32(&abortShard, 1)
			fail("writer-never-returned", fmt.Sprintf("%d of %d write calls have not returned: a writer is parked in %s [%s] and nothing can make progress (other blocked: %v)", atomic.LoadInt64(&calls)-atomic.LoadInt64(&returns), atomic.LoadInt64(&calls), vd.Parked, vd.ParkedIn, vd.Others), map[string]interface{}{"verdict": vd})
		} else {
			c.Inconclusive("writers slow to return, no stable blocked state")
			atomic.StoreInt32(&bad, 1)
		}
	}
	atomic.StoreInt32(&stop, 1)
	cdone := make(chan struct{})
	go func() { cwg.Wait(); close(cdone) }()
	if ok, vd := hang.WaitOrInspect(cdone, 60*time.Second, 4*time.Second, 20, func() int64 { return 0 }, func(g hang.G) bool {
		js := strings.Join(g.Frames, " ")
		return strings.Contains(js, "main.runCase") && strings.Contains(js, "goleveldb/leveldb.")
	}); !ok {
		if vd != nil {
			atomic.StoreInt32(&abortShard, 1)
			fail("competitor-never-returned", fmt.Sprintf("a transaction / CompactRange client is parked in %s [%s] and nothing can make progress", vd.Parked, vd.ParkedIn), map[string]interface{}{"verdict": vd})
		} else {
			c.Inconclusive("competitors slow to return, no stable blocked state")
			atomic.StoreInt32(&bad, 1)
		}
	}
	atomic.StoreInt32(&yieldOn, 0)
	a.mu.Lock()
	a.on = false
	probs := append([]string(nil), a.problems...)
	openSec, handoff, pend := a.cur != nil, a.handoff, len(a.pending)
	a.mu.Unlock()
	if len(probs) > 0 {
		fail("protocol:"+sigOf(probs[0]), probs[0], map[string]interface{}{"problems": probs})
	}
	if atomic.LoadInt32(&bad) == 0 {
		if openSec || handoff || pend > 0 {
			fail("protocol:unfinished", fmt.Sprintf("after all writers returned: open leader section=%v, hand-off in transit=%v, writers with undecided merge request=%d", openSec, handoff, pend), nil)
		}
		if calls != returns {
			fail("conservation", fmt.Sprintf("calls=%d returns=%d", calls, returns), nil)
		}
	}
	// sequence advanced by exactly the acknowledged records (when nothing else wrote)
	if atomic.LoadInt32(&bad) == 0 && !closedMid && competitor&1 == 0 && ending != 6 {
		vv1, rel1, err := leveldb.VerifPinVersion(db)
		if err == nil {
			rel1()
			if got, want := int64(vv1.Seq-vv0.Seq), atomic.LoadInt64(&okRecords); got != want {
				fail("sequence-accounting", fmt.Sprintf("sequence advanced by %d but %d records were acknowledged", got, want), nil)
			}
			c.Count("sequence_accounting_checked", 1)
		}
	}
	st.ClearFaults()
	if !closedMid {
		db.Close()
	}
	aut.Store((*automaton)(nil))
	c.Eval()
	for k, v := range a.trans {
		c.Count("event:"+k, v)
	}
	for sz, v := range a.groupSizes {
		b := fmt.Sprint(sz)
		if sz > 8 {
			b = "9+"
		}
		c.Count("groups_of_size:"+b, v)
	}
	for s := range a.sigs {
		c.Distinct("event_order_signatures", s)
	}
	results.Range(func(k, v interface{}) bool { c.Count("writer_result:"+k.(string), atomic.LoadInt64(v.(*int64))); return true })
	c.Count("groups", int64(a.nsec))
	if atomic.LoadInt32(&bad) == 0 {
		c.Nontrivial(fmt.Sprintf("case-%d", i))
		if c.WantSample() {
			a.mu.Lock()
			tail := append([]string(nil), a.recent[max(0, len(a.recent)-25):]...)
			a.mu.Unlock()
			c.Sample(map[string]interface{}{"case": i, "writers": nw, "per_writer": per, "competitor": competitor, "ending": ending, "groups": a.nsec, "last_events": tail})
		}
	}
}

func sigOf(p string) string {
	for _, k := range []string{"merged writer", "two groups at a time", "hand-off", "told 'merged'", "does not lead", "refused two", "journal records", "published", "acknowledges", "acknowledgements", "releases the lock", "accepted a writer"} {
		if strings.Contains(p, k) {
			return strings.ReplaceAll(k, " ", "-")
		}
	}
	return "other"
}
