// Worker for C06: the live table set is always a well-formed LSM tree. Every version
// is audited (metadata) at the moment it is replaced, through the version-installed
// hook; tables are scanned (deep audit) on a seeded sample of versions and at every
// checkpoint.
package main

import (
	"fmt"
	"math/rand"
	"sync"
	"sync/atomic"

	"github.com/syndtr/goleveldb/leveldb"
	"github.com/syndtr/goleveldb/leveldb/comparer"
	"github.com/syndtr/goleveldb/leveldb/util"

	"verif/dbx"
	"verif/lsm"
	"verif/model"
	"verif/vstor"
	"verif/wk"
)

func main() { wk.Main("C06", run) }

type auditor struct {
	mu       sync.Mutex
	db       *leveldb.DB
	st       *vstor.Stor
	cmp      comparer.Comparer
	r        *rand.Rand
	deepPct  int
	audited  map[int64]bool
	problems []string
	probVer  leveldb.VerifVersion
	c        *wk.Ctx
	busy     int32
}

var cur atomic.Value // *auditor

func (a *auditor) audit(forceDeep bool, why string) {
	a.mu.Lock()
	defer a.mu.Unlock()
	if a.db == nil || len(a.problems) > 0 {
		return
	}
	vv, rel, err := leveldb.VerifPinVersion(a.db)
	if err != nil {
		return
	}
	defer rel()
	deep := forceDeep || a.r.Intn(100) < a.deepPct
	if a.audited[vv.ID] && !deep {
		return
	}
	a.audited[vv.ID] = true
	var probs []string
	var st lsm.Stats
	if deep {
		probs, st, _ = lsm.Deep(vv, a.st, a.cmp, false)
		a.c.Count("versions_audited_deep", 1)
		a.c.Count("deep:"+why, 1)
		a.c.Count("tables_scanned", int64(st.Files))
		a.c.Count("entries_scanned", int64(st.Entries))
		a.c.Count("user_keys_in_two_or_more_levels", int64(st.MultiLevelKeys))
	} else {
		probs, st = lsm.Shallow(vv, a.st, a.cmp)
		a.c.Count("versions_audited_shallow", 1)
	}
	a.c.Max("max_files_in_a_level", int64(st.MaxFilesLevel))
	a.c.Max("max_levels", int64(st.Levels))
	if len(probs) > 0 {
		a.problems = probs
		a.probVer = vv
	}
}

func run(c *wk.Ctx) {
	leveldb.SetVerifHooks(nil, func(k int, x, y, z uint64) {
		if k != leveldb.VerifEVersion {
			return
		}
		if a, _ := cur.Load().(*auditor); a != nil {
			// The version about to be replaced is audited now, while it is still current.
			a.audit(false, "replaced")
		}
	})
	ncases := c.Pick(800, 8000)
	for i := 0; i < ncases; i++ {
		if c.Mine(i) {
			runCase(c, i)
		}
	}
}

func runCase(c *wk.Ctx, i int) {
	r := c.Rand(i)
	os := model.RandomOptions(r, model.OptConstraints{NonInjective: true})
	if r.Intn(3) == 0 {
		// make trivial moves likely: large grand-parent overlap allowance
		os.O.CompactionGPOverlapsFactor = 100
		os.Desc["CompactionGPOverlapsFactor"] = 100
	}
	nkeys := 100 + r.Intn(1500)
	nops := 300 + r.Intn(c.Pick(1500, 3500))
	if os.O.WriteL0SlowdownTrigger <= 2 {
		nops = 300 + r.Intn(700)
	}
	c.Begin(i, fmt.Sprintf("opts=%v nkeys=%d nops=%d", os.Desc, nkeys, nops))
	a := &auditor{cmp: os.O.Comparer, r: rand.New(rand.NewSource(c.CaseSeed(i) + 1)), deepPct: 6, audited: map[int64]bool{}, c: c}
	var ru *dbx.Runner
	var perr error
	failed := false
	report := func() bool {
		a.mu.Lock()
		probs, vv := a.problems, a.probVer
		a.mu.Unlock()
		if len(probs) == 0 || failed {
			return failed
		}
		failed = true
		if len(probs) > 12 {
			probs = probs[:12]
		}
		lv := []string{}
		for l, ts := range vv.Levels {
			for _, t := range ts {
				lv = append(lv, fmt.Sprintf("L%d #%d size=%d [%x .. %x]", l, t.Num, t.Size, t.IMin, t.IMax))
			}
		}
		if len(lv) > 80 {
			lv = lv[:80]
		}
		c.Violation(i, "malformed-version:"+sigOf(probs[0]), probs[0], map[string]interface{}{"problems": probs, "version_id": vv.ID, "tables": lv,
			"options": os.Desc, "recent_ops": ru.Trace})
		return true
	}
	panicked := c.Guard(i, "C06 case", func() {
		var err error
		ru, err = dbx.NewRunner(r, os, nkeys, false)
		if err != nil {
			perr = err
			return
		}
		a.st = ru.Stor
		ru.OnOpen = func(db *leveldb.DB) {
			a.mu.Lock()
			a.db = db
			a.mu.Unlock()
			a.audit(true, "after-open")
		}
		ru.OnClosing = func() {
			a.audit(true, "before-close")
			a.mu.Lock()
			a.db = nil
			a.mu.Unlock()
		}
		cur.Store(a)
		ru.Announce()
		ru.AfterOp = func(ru *dbx.Runner, kind string) error {
			if kind == "compactrange" {
				a.audit(true, "after-compactrange")
			}
			return nil
		}
		for n := 0; n < nops; n++ {
			if perr = ru.Step(); perr != nil {
				return
			}
			if report() {
				return
			}
			if r.Intn(400) == 0 {
				leveldb.VerifBarrier(ru.DB)
				a.audit(true, "after-barrier")
			}
			if r.Intn(300) == 0 {
				// a transaction commit adds several level-0 tables in one edit
				tr, err := ru.DB.OpenTransaction()
				if err == nil {
					nw := 20 + r.Intn(400)
					for j := 0; j < nw; j++ {
						k := ru.Keys.Pick(r)
						v := model.Value(3, uint32(ru.NOps), uint32(j), 20+r.Intn(100))
						if tr.Put(k, v, nil) == nil {
							ru.M.Put(k, v)
							ru.Used[string(k)] = true
						}
					}
					if err := tr.Commit(); err != nil {
						perr = fmt.Errorf("transaction commit failed: %v", err)
						return
					}
					c.Count("transactions_committed", 1)
					a.audit(true, "after-transaction")
				}
			}
		}
		ru.DB.CompactRange(util.Range{})
		leveldb.VerifBarrier(ru.DB)
		a.audit(true, "final")
		perr = ru.Sweep()
	})
	c.Eval()
	report()
	if ru != nil && !panicked {
		c.Guard(i, "close", func() { ru.Close() })
		report()
		c.Count("table_compactions", int64(ru.LogContains("table@compaction committed")))
		c.Count("trivial_moves", int64(ru.LogContains("table@move")))
		c.Count("memdb_flushes", int64(ru.LogContains("memdb@flush committed")))
		c.Count("reopens", ru.Stats["reopen"])
		c.Count("comparer:"+os.O.Comparer.Name(), 1)
	}
	cur.Store((*auditor)(nil))
	if perr != nil && !failed {
		// a read mismatch belongs to C01, but it is a failed run all the same
		c.Violation(i, "program-failed", perr.Error(), map[string]interface{}{"error": perr.Error(), "options": os.Desc})
		return
	}
	if !failed && !panicked {
		c.Nontrivial(fmt.Sprintf("case-%d", i))
		if c.WantSample() {
			c.Sample(map[string]interface{}{"case": i, "options": os.Desc, "nops": nops, "versions_audited": len(a.audited)})
		}
	}
}

func sigOf(p string) string {
	for _, k := range []string{"overlap in user key", "not sorted by smallest", "not sorted by descending", "missing from storage", "recorded size", "recorded smallest", "recorded largest", "not strictly increasing", "not newer than", "listed twice", "smallest > largest", "scan failed", "empty table", "invalid internal key", "malformed bounds"} {
		if containsStr(p, k) {
			return k
		}
	}
	return "other"
}

func containsStr(s, sub string) bool {
	for i := 0; i+len(sub) <= len(s); i++ {
		if s[i:i+len(sub)] == sub {
			return true
		}
	}
	return false
}
