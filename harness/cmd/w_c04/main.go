// Worker for C04: crash at any instant. A workload runs on the recording storage;
// crash images are materialised at every ordering point of the op log (and a sample
// of the others) under several tail policies; each image must open, its contents must
// be explained by the possible-value oracle, and the reopened DB must be usable.
package main

import (
	"fmt"
	"math/rand"
	"sort"
	"sync"
	"sync/atomic"

	"github.com/syndtr/goleveldb/leveldb"
	"github.com/syndtr/goleveldb/leveldb/storage"
	"github.com/syndtr/goleveldb/leveldb/util"

	"verif/hist"
	"verif/lsm"
	"verif/model"
	"verif/vstor"
	"verif/wk"
	"verif/wl"
)

func main() { wk.Main("C04", run) }

func run(c *wk.Ctx) {
	nw := c.Pick(32, 96) // workloads (thorough: every ordering point of each)
	for i := 0; i < nw; i++ {
		if c.Mine(i) {
			runWorkload(c, i)
		}
	}
}

type workload struct {
	opened int64 // storage op index at which the creating Open returned
	os     model.OptSet
	stor   *vstor.Stor
	h      *hist.History
	keys   [][]byte
	desc   map[string]interface{}
}

func crashOptions(r *rand.Rand) model.OptSet {
	os := model.RandomOptions(r, model.OptConstraints{DefaultComparer: true})
	// tiny buffers so that flushes, compactions and manifest rotations are everywhere in the log
	os.O.WriteBuffer = []int{1 << 10, 2 << 10, 4 << 10}[r.Intn(3)]
	os.Desc["WriteBuffer"] = os.O.WriteBuffer
	os.O.NoSync = false
	return os
}

// build runs one workload and records its history.
func build(c *wk.Ctx, i int, r *rand.Rand) (*workload, error) {
	w := &workload{os: crashOptions(r), stor: vstor.New(true), h: &hist.History{}}
	w.stor.SetKeepLogs(false)
	if i%5 == 1 {
		// long-key workloads: with the tiny buffers of the other workloads every single write would be a flush and
		// every entry a table of its own (tens of thousands of storage operations for 150 writes); a few pairs per
		// table keep the log at a size whose crash points can be enumerated, and the manifest records still carry
		// two keys of several KiB per table
		w.os.O.WriteBuffer = []int{16 << 10, 32 << 10}[r.Intn(2)]
		w.os.O.CompactionTableSize = 32 << 10
		w.os.Desc["WriteBuffer"], w.os.Desc["CompactionTableSize"] = w.os.O.WriteBuffer, w.os.O.CompactionTableSize
	}
	db, err := leveldb.Open(w.stor, w.os.Clone())
	if err != nil {
		return nil, fmt.Errorf("open: %v", err)
	}
	// Crash points start here: before the creating Open has returned there is no DB yet
	// that could "open again" (a half-created directory is refused by Open by design).
	w.opened = w.stor.OpIndex()
	// One writer, or three concurrent writers on disjoint key spaces (write merging then groups
	// synced and unsynced writes of different clients into one journal record).
	nwriters := 1
	if r.Intn(2) == 0 {
		nwriters = 3
	}
	nops := 200 + r.Intn(c.Pick(700, 1300))
	bigKeys := i%5 == 1
	if bigKeys {
		nops = 100 + r.Intn(300)
	}
	syncPct := []int{5, 30, 100}[r.Intn(3)]
	shared := &hist.History{}
	w.h = shared
	var wg sync.WaitGroup
	var firstErr atomic.Value
	for wi := 0; wi < nwriters; wi++ {
		rr := rand.New(rand.NewSource(r.Int63()))
		kg := model.NewKeyGen(rr, 40+rr.Intn(120))
		for j := range kg.Pool {
			kg.Pool[j] = append([]byte{byte('A' + wi), '/'}, kg.Pool[j]...)
		}
		if bigKeys {
			// keys of a few KiB: a manifest record (which carries the smallest and largest key of every
			// table it adds) then regularly spans a 32 KiB journal block, i.e. is written in two pieces
			kg.Inflate(rr, 1500, 7500)
		}
		w.keys = append(w.keys, kg.Pool...)
		cl := wl.NewClient(db, w.stor, rr, kg, w.os.O, uint32(wi+1))
		cl.H = shared
		cl.SyncPct = syncPct
		if nwriters > 1 {
			cl.SyncPct = []int{0, 50, 100}[wi] // one client never syncs, one always: merged groups mix them
		}
		wg.Add(1)
		go func(n int) {
			defer wg.Done()
			for j := 0; j < n; j++ {
				switch x := rr.Intn(100); {
				case x < 88:
					if err := cl.Write(); err != nil {
						firstErr.Store(fmt.Errorf("a write failed without any fault: %v", err))
						return
					}
					if rp := cl.TxProblem; rp != nil {
						firstErr.Store(fmt.Errorf("Transaction.Get(%s) returned %s; the transaction's own latest write says %v", rp.Key, rp.Got, rp.Want))
						return
					}
				case x < 91:
					if err := db.CompactRange(util.Range{}); err != nil {
						firstErr.Store(fmt.Errorf("CompactRange failed without any fault: %v", err))
						return
					}
				default:
					db.Get(kg.Pick(rr), nil)
				}
			}
		}(nops / nwriters)
	}
	wg.Wait()
	if e, _ := firstErr.Load().(error); e != nil {
		db.Close()
		return nil, e
	}
	if r.Intn(2) == 0 {
		// half of the workloads end with a clean close, so that images after the close exist too
		if err := db.Close(); err != nil {
			return nil, fmt.Errorf("close: %v", err)
		}
	} else {
		leveldb.VerifBarrier(db)
		db.Close()
	}
	w.desc = map[string]interface{}{"options": w.os.Desc, "client_ops": nops, "writers": nwriters, "sync_pct": syncPct, "batches": len(w.h.B), "big_keys": bigKeys}
	return w, nil
}

func runWorkload(c *wk.Ctx, i int) {
	r := c.Rand(i)
	c.Begin(i, "build workload")
	var w *workload
	var berr error
	if c.Guard(i, "C04 workload", func() { w, berr = build(c, i, r) }) {
		return
	}
	if berr != nil {
		c.Violation(i, "workload-failed", berr.Error(), nil)
		return
	}
	im := w.stor.NewImager()
	n := im.Len()
	c.Count("workloads", 1)
	if w.desc["big_keys"] == true {
		c.Count("workloads_with_keys_of_several_KiB", 1)
	}
	c.Count(fmt.Sprintf("workloads_with_%v_writers", w.desc["writers"]), 1)
	c.Count("storage_ops_in_logs", n)
	// crash points
	points := map[int64]string{}
	for k := w.opened; k < n; k++ {
		op := im.Op(k)
		switch op.Kind {
		case vstor.OpSync, vstor.OpSetMeta, vstor.OpRemove, vstor.OpRename, vstor.OpCreate, vstor.OpCloseW:
			points[k] = "before:" + op.Kind.String() + ":" + vstor.TypeName(op.Fd.Type)
			points[k+1] = "after:" + op.Kind.String() + ":" + vstor.TypeName(op.Fd.Type)
		}
	}
	ordering := len(points)
	// quick tier: a seeded subset of 260 ordering points; thorough: up to 4000 (all of them for most workloads)
	var ks []int64
	for k := range points {
		ks = append(ks, k)
	}
	sort.Slice(ks, func(a, b int) bool { return ks[a] < ks[b] })
	budget := c.Pick(260, 4000) // thorough: all ordering points of an ordinary workload, a seeded 4000 of the largest ones
	if w.desc["big_keys"] == true {
		budget = c.Pick(260, 1500) // long-key workloads have 10-25 thousand ordering points and slow recoveries
	}
	if len(ks) > budget {
		r.Shuffle(len(ks), func(a, b int) { ks[a], ks[b] = ks[b], ks[a] })
		ks = ks[:budget]
	}
	// plus sampled write boundaries
	for j := 0; j < c.Pick(60, 400); j++ {
		k := w.opened + r.Int63n(n+1-w.opened)
		if _, ok := points[k]; !ok {
			points[k] = "sampled:" + func() string {
				if k < n {
					return "before:" + im.Op(k).Kind.String() + ":" + vstor.TypeName(im.Op(k).Fd.Type)
				}
				return "end"
			}()
			ks = append(ks, k)
		}
	}
	// plus the boundaries of manifest writes: a manifest record that spans a journal block is written in
	// two pieces, and a crash may keep the first without the second
	var mw []int64
	for k := w.opened; k < n; k++ {
		if op := im.Op(k); op.Kind == vstor.OpWrite && op.Fd.Type == storage.TypeManifest {
			mw = append(mw, k+1)
		}
	}
	c.Count("manifest_writes_in_logs", int64(len(mw)))
	// boundaries that fall between two pieces of one record (the next operation is another write to the
	// manifest, no Sync in between) are the interesting ones and get a budget of their own
	var between, other []int64
	for _, k := range mw {
		if k < n && im.Op(k).Kind == vstor.OpWrite && im.Op(k).Fd.Type == storage.TypeManifest {
			between = append(between, k)
		} else {
			other = append(other, k)
		}
	}
	c.Count("manifest_records_written_in_pieces", int64(len(between)))
	if mb := c.Pick(60, 400); len(between) > mb {
		r.Shuffle(len(between), func(a, b int) { between[a], between[b] = between[b], between[a] })
		between = between[:mb]
	}
	if mb := c.Pick(40, 800); len(other) > mb {
		r.Shuffle(len(other), func(a, b int) { other[a], other[b] = other[b], other[a] })
		other = other[:mb]
	}
	for _, k := range between {
		if _, ok := points[k]; !ok {
			points[k] = "between-pieces-of-a-manifest-record"
			ks = append(ks, k)
		}
	}
	for _, k := range other {
		if _, ok := points[k]; !ok {
			points[k] = "after:write:manifest"
			ks = append(ks, k)
		}
	}
	sort.Slice(ks, func(a, b int) bool { return ks[a] < ks[b] })
	c.Count("ordering_points_in_logs", int64(ordering))
	batches := w.h.Batches()
	for _, k := range ks {
		for pol := 0; pol < 3; pol++ {
			if c.Quick() && pol == 1 && r.Intn(2) == 0 {
				continue
			}
			tailStats := map[vstor.Tail]int{}
			var tp vstor.TailPolicy
			polName := ""
			switch pol {
			case 0:
				tp, polName = vstor.AllLost, "all-lost"
			case 1:
				tp, polName = vstor.AllKept, "all-kept"
			default:
				tp, polName = vstor.MixedPolicy(rand.New(rand.NewSource(r.Int63())), tailStats), "mixed"
			}
			img, info := im.ImageAt(k, tp)
			c.Begin(i, fmt.Sprintf("image at op %d (%s) policy %s", k, points[k], polName))
			nested := r.Intn(c.Pick(10, 20)) == 0
			ok := checkImage(c, i, w, batches, img, k, points[k], polName, info, 1, nested, r)
			c.Eval()
			c.Count("images", 1)
			c.Count("images_by_point:"+points[k], 1)
			c.Count("images_by_policy:"+polName, 1)
			for t, cnt := range tailStats {
				c.Count("tails:"+t.String(), int64(cnt))
			}
			if info.UnsyncedTail > 0 {
				c.Count("images_with_unsynced_tail", 1)
			}
			if !ok {
				return // one witness per workload is enough
			}
			if info.UnsyncedTail > 0 && info.At > 50 {
				c.Nontrivial(fmt.Sprintf("w%d-k%d-p%d", i, k, pol))
			}
		}
	}
	if c.WantSample() {
		c.Sample(map[string]interface{}{"workload": i, "desc": w.desc, "storage_ops": n, "ordering_points": ordering, "crash_points_tried": len(ks)})
	}
}

var logTarget *vstor.Stor

// checkImage opens the image, applies the oracle and exercises the recovered DB.
func checkImage(c *wk.Ctx, i int, w *workload, batches []*hist.Batch, img *vstor.Stor, k int64, point, pol string, info vstor.ImageInfo, depth int, nested bool, r *rand.Rand) bool {
	witness := func(extra map[string]interface{}) map[string]interface{} {
		m := map[string]interface{}{"workload": w.desc, "crash_before_storage_op": k, "crash_point": point, "tail_policy": pol, "depth": depth}
		var files []string
		for _, f := range img.Files() {
			files = append(files, fmt.Sprintf("%v size=%d", f.Fd, f.Size))
		}
		m["image_files"] = files
		if tgt := logTarget; tgt != nil {
			var ll []string
			lg := tgt.Logs()
			if len(lg) > 120 {
				lg = lg[len(lg)-120:]
			}
			for _, l := range lg {
				ll = append(ll, l.Text)
			}
			m["recovered_db_log_tail"] = ll
		}
		for kk, v := range extra {
			m[kk] = v
		}
		return m
	}
	var target *vstor.Stor = img
	if nested {
		target = img.Clone(true)
	}
	logTarget = target
	var db *leveldb.DB
	var err error
	if c.Guard(i, "Open on a crash image", func() { db, err = leveldb.Open(target, w.os.Clone()) }) {
		return false
	}
	if err != nil {
		c.Violation(i, "open-failed-after-crash", fmt.Sprintf("Open failed on the image cut before storage op %d (%s, %s): %v", k, point, pol, err), witness(map[string]interface{}{"error": err.Error()}))
		return false
	}
	recoveryOps := target.OpIndex()
	good := true
	c.Guard(i, "reads on a recovered DB", func() {
		var all []hist.KVPair
		it := db.NewIterator(nil, nil)
		for it.Next() {
			all = append(all, hist.KVPair{K: append([]byte{}, it.Key()...), V: append([]byte{}, it.Value()...)})
		}
		ierr := it.Error()
		it.Release()
		if ierr != nil {
			c.Violation(i, "read-error-after-crash", "iteration on the recovered DB failed: "+ierr.Error(), witness(nil))
			good = false
			return
		}
		obs := hist.Observation{All: all, Get: func(key []byte) ([]byte, bool, error) {
			v, err := db.Get(key, nil)
			if err == leveldb.ErrNotFound {
				return nil, false, nil
			}
			return v, err == nil, err
		}}
		probs, st := hist.Check(batches, func(b *hist.Batch) hist.Status { return hist.CrashStatus(b, k) }, obs)
		c.Count("required_batches_checked", int64(st.Required))
		c.Count("optional_batches_present", int64(st.OptionalPresent))
		c.Count("optional_batches_absent", int64(st.OptionalAbsent))
		c.Count("never_issued_batches_checked", int64(st.Absent))
		c.Count("keys_checked", int64(st.KeysChecked))
		if st.OptionalAbsent > 0 {
			c.Count("images_that_lost_unsynced_batches", 1)
		}
		if len(probs) > 0 {
			c.Violation(i, "crash-contents:"+probs[0].Kind, fmt.Sprintf("image cut before storage op %d (%s, %s, depth %d): %s", k, point, pol, depth, probs[0].Text), witness(map[string]interface{}{"problems": probs}))
			good = false
			return
		}
		// iteration and point reads agree
		m := model.NewMap(w.os.O.Comparer)
		for _, p := range all {
			m.Put(p.K, p.V)
		}
		// The reopened DB is fully usable: a short C01-style program, audits, clean reopen.
		if depth == 1 && r.Intn(4) == 0 {
			for n := 0; n < 150 && good; n++ {
				key := w.keys[r.Intn(len(w.keys))]
				switch r.Intn(4) {
				case 0:
					v := model.Value(9, uint32(n), 0, 10+r.Intn(300))
					if err := db.Put(key, v, nil); err != nil {
						c.Violation(i, "unusable-after-crash", "Put on the recovered DB failed: "+err.Error(), witness(nil))
						good = false
					}
					m.Put(key, v)
				case 1:
					if err := db.Delete(key, nil); err != nil {
						c.Violation(i, "unusable-after-crash", "Delete on the recovered DB failed: "+err.Error(), witness(nil))
						good = false
					}
					m.Delete(key)
				default:
					want, live := m.Get(key)
					got, err := db.Get(key, nil)
					if live && (err != nil || string(got) != string(want)) || !live && err != leveldb.ErrNotFound {
						c.Violation(i, "unusable-after-crash", fmt.Sprintf("recovered DB: Get(%x) = %x,%v want %x (live %v)", key, got, err, want, live), witness(nil))
						good = false
					}
				}
			}
			if good {
				if err := db.CompactRange(util.Range{}); err != nil {
					c.Violation(i, "unusable-after-crash", "CompactRange on the recovered DB failed: "+err.Error(), witness(nil))
					good = false
				}
			}
			if good {
				leveldb.VerifBarrier(db)
				vv, rel, err := leveldb.VerifPinVersion(db)
				if err == nil {
					probs, _, _ := lsm.Deep(vv, target, w.os.O.Comparer, false)
					_, _, jn, fjn, _ := leveldb.VerifState(db)
					extra, missing := lsm.LeakAudit(vv, target, jn, fjn, leveldb.VerifManifestNum(db))
					rel()
					if len(probs) > 0 {
						c.Violation(i, "malformed-version-after-crash", probs[0], witness(map[string]interface{}{"problems": probs}))
						good = false
					} else if len(extra) > 0 || len(missing) > 0 {
						c.Violation(i, "leftover-files-after-crash-recovery", fmt.Sprintf("after recovery + settle: unexpected files %v, missing %v", extra, missing), witness(nil))
						good = false
					}
					c.Count("recovered_dbs_exercised_and_audited", 1)
				}
			}
		}
	})
	c.Guard(i, "Close of a recovered DB", func() { db.Close() })
	if !good {
		return false
	}
	if nested && depth == 1 {
		// crash the recovery itself at each of its own ordering points
		im2 := target.NewImager()
		var ks []int64
		for j := int64(0); j < recoveryOps && j < im2.Len(); j++ {
			switch im2.Op(j).Kind {
			case vstor.OpSync, vstor.OpSetMeta, vstor.OpRemove, vstor.OpRename, vstor.OpCreate:
				ks = append(ks, j, j+1)
			}
		}
		for _, k2 := range ks {
			img2, info2 := im2.ImageAt(k2, vstor.MixedPolicy(rand.New(rand.NewSource(r.Int63())), nil))
			c.Begin(i, fmt.Sprintf("nested image: first cut %d, recovery cut %d", k, k2))
			c.Count("nested_images", 1)
			c.Eval()
			if !checkImage(c, i, w, batches, img2, k, fmt.Sprintf("%s; then recovery cut before its op %d", point, k2), pol+"+mixed", info2, 2, false, r) {
				return false
			}
		}
	}
	_ = storage.TypeAll
	return true
}
