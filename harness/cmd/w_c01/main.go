// Worker for C01: reads return the latest write (ordered-map equivalence).
package main

import (
	"fmt"

	"github.com/syndtr/goleveldb/leveldb/storage"

	"verif/dbx"
	"verif/model"
	"verif/vstor"
	"verif/wk"
)

func main() { wk.Main("C01", run) }

func run(c *wk.Ctx) {
	ncases := c.Pick(1200, 12000)
	for i := 0; i < ncases; i++ {
		if !c.Mine(i) {
			continue
		}
		runCase(c, i)
	}
}

func runCase(c *wk.Ctx, i int) {
	r := c.Rand(i)
	os := model.RandomOptions(r, model.OptConstraints{NonInjective: true})
	nkeys := 200 + r.Intn(1800)
	nops := 300 + r.Intn(c.Pick(2200, 3700))
	if l0 := os.O.WriteL0SlowdownTrigger; l0 <= 2 {
		// option sets that sit above the slowdown trigger pay 1 ms per write
		nops = 300 + r.Intn(900)
	}
	bigKeys := i%10 == 7
	if bigKeys {
		nkeys, nops = 40+r.Intn(160), 150+r.Intn(450)
		os.Desc["keys_of_several_KiB"] = true
	}
	c.Begin(i, fmt.Sprintf("opts=%v nkeys=%d nops=%d", os.Desc, nkeys, nops))
	var mm error
	var ru *dbx.Runner
	panicked := c.Guard(i, "C01 program", func() {
		var err error
		ru, err = dbx.NewRunnerBig(r, os, nkeys, false, bigKeys)
		if err != nil {
			mm = fmt.Errorf("open of a fresh storage failed: %v", err)
			return
		}
		for n := 0; n < nops; n++ {
			if mm = ru.Step(); mm != nil {
				return
			}
		}
		if mm = ru.Sweep(); mm != nil {
			return
		}
		if mm = ru.Reopen(); mm != nil {
			return
		}
		mm = ru.Sweep()
		c.Max("max_level_populated", int64(ru.MaxLevel()))
	})
	c.Eval()
	report(c, i, mm, os)
	if ru != nil && !panicked {
		c.Guard(i, "Close", func() { ru.Close() })
	}
	if ru != nil {
		for k, v := range ru.Stats {
			c.Count(k, v)
		}
		c.Count("comparer:"+os.O.Comparer.Name(), 1)
		if bigKeys {
			c.Count("programs_with_keys_of_several_KiB", 1)
		}
		c.Count("memdb_flushes", int64(ru.LogContains("memdb@flush committed")))
		c.Count("table_compactions", int64(ru.LogContains("table@compaction committed")))
		c.Count("trivial_moves", int64(ru.LogContains("table@move")))
		c.Count("manifest_rotations", int64(ru.Stor.Count(vstor.OpCreate, storage.TypeManifest)))
		c.Count("transaction_flushes", int64(ru.LogContains("transaction@flush created")))
	}
	if panicked {
		return
	}
	if mm != nil {
		return
	}
	if ru.Stats["reads_from_tables"] >= 50 && ru.LogContains("table@compaction committed") > 0 {
		c.Nontrivial(fmt.Sprintf("case-%d", i))
	}
	if c.WantSample() {
		c.Sample(map[string]interface{}{"case": i, "options": os.Desc, "nkeys": nkeys, "nops": nops,
			"stats": ru.Stats, "last_ops": ru.Trace[max(0, len(ru.Trace)-8):]})
	}
}

func report(c *wk.Ctx, i int, mm error, os model.OptSet) {
	if mm == nil {
		return
	}
	if m, ok := mm.(*dbx.Mismatch); ok {
		c.Violation(i, "mismatch:"+classify(m, os), m.Error(), m)
	} else {
		c.Violation(i, "open-failed", mm.Error(), map[string]interface{}{"options": os.Desc})
	}
}

// classify gives a coarse, deterministic signature of a mismatch.
func classify(m *dbx.Mismatch, os model.OptSet) string {
	w := "read"
	switch {
	case len(m.What) >= 3 && m.What[:3] == "Put", len(m.What) >= 5 && m.What[:5] == "Write", len(m.What) >= 6 && m.What[:6] == "Delete":
		w = "write-error"
	case len(m.What) >= 4 && m.What[:4] == "Open":
		w = "reopen-error"
	case len(m.What) >= 12 && m.What[:12] == "CompactRange":
		w = "compact-error"
	}
	return w
}
