// Worker for C03: snapshots and iterators are frozen views, immune to later activity.
package main

import (
	"bytes"
	"fmt"
	"math/rand"
	"strings"
	"sync/atomic"

	"github.com/syndtr/goleveldb/leveldb"
	"github.com/syndtr/goleveldb/leveldb/iterator"
	"github.com/syndtr/goleveldb/leveldb/util"

	"verif/dbx"
	"verif/model"
	"verif/wk"
)

func main() { wk.Main("C03", run) }

var versionInstalls int64 // incremented by the version-installed hook event
var liveSnaps int64
var compactionsUnderSnapshot int64

type snapH struct {
	s     *leveldb.Snapshot
	m     *model.Map
	atVer int64
	atOp  int
	long  bool
}

type iterH struct {
	it    iterator.Iterator
	cur   *model.Cursor
	fresh bool
	atVer int64
	atOp  int
	long  bool
	desc  string
}

func run(c *wk.Ctx) {
	leveldb.SetVerifHooks(nil, func(k int, a, b, cc uint64) {
		if k == leveldb.VerifEVersion {
			atomic.AddInt64(&versionInstalls, 1)
		}
	})
	ncases := c.Pick(260, 4000)
	for i := 0; i < ncases; i++ {
		if c.Mine(i) {
			runCase(c, i)
		}
	}
}

func ageBucket(n int64) string {
	switch {
	case n >= 300:
		return ">=300"
	case n >= 100:
		return ">=100"
	case n >= 10:
		return ">=10"
	case n >= 1:
		return ">=1"
	}
	return "0"
}

func runCase(c *wk.Ctx, i int) {
	r := c.Rand(i)
	os := model.RandomOptions(r, model.OptConstraints{NonInjective: true})
	if r.Intn(2) == 0 {
		// half of the cases use very small buffers so that hundreds of version changes happen
		os.O.WriteBuffer = 1 << 10
		os.Desc["WriteBuffer"] = 1 << 10
	}
	nkeys := 40 + r.Intn(400)
	nops := 400 + r.Intn(c.Pick(2200, 4000))
	c.Begin(i, fmt.Sprintf("opts=%v nkeys=%d nops=%d", os.Desc, nkeys, nops))
	var (
		ru     *dbx.Runner
		snaps  []*snapH
		iters  []*iterH
		failed bool
	)
	fail := func(sig, msg string, w interface{}) {
		if !failed {
			failed = true
			c.Violation(i, sig, msg, w)
		}
	}
	atomic.StoreInt64(&liveSnaps, 0)
	checkSnap := func(h *snapH, full bool) bool {
		age := atomic.LoadInt64(&versionInstalls) - h.atVer
		c.Count("snapshot_reads_by_age:"+ageBucket(age), 1)
		c.Max("max_version_changes_behind_a_snapshot", age)
		n := 12
		if full {
			n = len(ru.Keys.Pool)
		}
		for j := 0; j < n; j++ {
			var k []byte
			if full {
				k = ru.Keys.Pool[j]
			} else if j%4 == 3 {
				k = ru.Keys.Probe(r)
			} else {
				k = ru.Keys.Pick(r)
			}
			want, live := h.m.Get(k)
			got, err := h.s.Get(k, nil)
			if live && (err != nil || !bytes.Equal(got, want)) || !live && err != leveldb.ErrNotFound {
				g := dbx.Hex(got)
				if err != nil {
					g = "error: " + err.Error()
				}
				fail("snapshot-changed", fmt.Sprintf("Snapshot.Get(%x) = %s, frozen model says %s (live=%v); snapshot taken at op %d, now op %d, %d version changes later", k, g, dbx.Hex(want), live, h.atOp, ru.NOps, age),
					map[string]interface{}{"options": os.Desc, "key": dbx.Hex(k), "got": g, "want": dbx.Hex(want), "recent_ops": ru.Trace})
				return false
			}
			has, err := h.s.Has(k, nil)
			if err != nil || has != live {
				fail("snapshot-changed", fmt.Sprintf("Snapshot.Has(%x) = %v,%v, frozen model live=%v", k, has, err, live), map[string]interface{}{"options": os.Desc, "recent_ops": ru.Trace})
				return false
			}
		}
		c.Count("snapshot_point_reads", int64(2*n))
		if full || r.Intn(4) == 0 {
			// iterate through the snapshot
			var rg *util.Range
			if !full && r.Intn(2) == 0 {
				a, b := ru.Keys.Pick(r), ru.Keys.Pick(r)
				if os.O.Comparer.Compare(a, b) > 0 {
					a, b = b, a
				}
				rg = &util.Range{Start: a, Limit: b}
			}
			var list []model.KV
			if rg == nil {
				list = h.m.Range(nil, nil)
			} else {
				list = h.m.Range(rg.Start, rg.Limit)
			}
			it := h.s.NewIterator(rg, nil)
			var mm *dbx.WalkMismatch
			if full {
				mm = dbx.FullScan(it, list)
			} else {
				ws := &dbx.WalkStats{}
				mm = dbx.Walk(r, it, list, os.O.Comparer, func() []byte { return ru.Keys.Pick(r) }, 30, ws)
			}
			it.Release()
			c.Count("snapshot_iterations", 1)
			if mm != nil {
				fail("snapshot-changed", "iteration through an old snapshot: "+mm.Error(), map[string]interface{}{"options": os.Desc, "mismatch": mm, "age_versions": age, "recent_ops": ru.Trace})
				return false
			}
		}
		return true
	}
	checkIter := func(h *iterH, full bool) bool {
		age := atomic.LoadInt64(&versionInstalls) - h.atVer
		c.Count("iterator_reads_by_age:"+ageBucket(age), 1)
		c.Max("max_version_changes_behind_an_iterator", age)
		var mm *dbx.WalkMismatch
		if full {
			mm = dbx.FullScan(h.it, h.cur.L)
			h.cur.P = -1 // FullScan leaves the iterator before the first element
			h.fresh = false
		} else {
			ws := &dbx.WalkStats{}
			mm = dbx.WalkFrom(r, h.it, h.cur, h.fresh, func() []byte { return ru.Keys.Pick(r) }, 8+r.Intn(30), ws)
			h.fresh = false
			c.Count("old_iterator_calls", int64(8))
		}
		if mm != nil {
			fail("iterator-changed", fmt.Sprintf("iterator (%s) created at op %d, %d version changes ago: %s", h.desc, h.atOp, age, mm.Error()),
				map[string]interface{}{"options": os.Desc, "mismatch": mm, "recent_ops": ru.Trace})
			return false
		}
		return true
	}
	panicked := c.Guard(i, "C03 case", func() {
		var err error
		ru, err = dbx.NewRunner(r, os, nkeys, false)
		if err != nil {
			fail("open-failed", err.Error(), os.Desc)
			return
		}
		ru.NoReopen = true
		ru.OnLogExtra = func(line string) {
			if strings.HasPrefix(line, "table@compaction L") && atomic.LoadInt64(&liveSnaps) > 0 {
				atomic.AddInt64(&compactionsUnderSnapshot, 1)
			}
		}
		for n := 0; n < nops && !failed; n++ {
			if err := ru.Step(); err != nil {
				fail("live-db-mismatch", err.Error(), err)
				return
			}
			x := r.Intn(100)
			switch {
			case x < 6 && len(snaps) < 40:
				// one or several snapshots at the same sequence
				k := 1
				if r.Intn(4) == 0 {
					k = 2 + r.Intn(2)
				}
				for ; k > 0; k-- {
					s, err := ru.DB.GetSnapshot()
					if err != nil {
						fail("snapshot-error", err.Error(), nil)
						return
					}
					snaps = append(snaps, &snapH{s: s, m: ru.M.Clone(), atVer: atomic.LoadInt64(&versionInstalls), atOp: ru.NOps, long: n < nops/8 && r.Intn(2) == 0})
					atomic.AddInt64(&liveSnaps, 1)
					c.Count("snapshots_taken", 1)
				}
				c.Max("max_live_snapshots", int64(len(snaps)))
			case x < 10 && len(iters) < 30:
				var rg *util.Range
				desc := "nil range"
				if r.Intn(2) == 0 {
					a, b := ru.Keys.Pick(r), ru.Keys.Pick(r)
					if os.O.Comparer.Compare(a, b) > 0 {
						a, b = b, a
					}
					rg = &util.Range{Start: a, Limit: b}
					desc = fmt.Sprintf("range %x..%x", a, b)
				}
				var list []model.KV
				if rg == nil {
					list = ru.M.Range(nil, nil)
				} else {
					list = ru.M.Range(rg.Start, rg.Limit)
				}
				it := ru.DB.NewIterator(rg, nil)
				iters = append(iters, &iterH{it: it, cur: model.NewCursor(list, os.O.Comparer), fresh: true, atVer: atomic.LoadInt64(&versionInstalls), atOp: ru.NOps, long: n < nops/8 && r.Intn(2) == 0, desc: desc})
				c.Count("iterators_held", 1)
			case x < 30 && len(snaps) > 0:
				if !checkSnap(snaps[r.Intn(len(snaps))], false) {
					return
				}
			case x < 45 && len(iters) > 0:
				if !checkIter(iters[r.Intn(len(iters))], false) {
					return
				}
			case x < 49 && len(snaps) > 0:
				// release one; the others and the live DB must be unaffected (checked by later steps)
				j := r.Intn(len(snaps))
				if snaps[j].long {
					break
				}
				if !checkSnap(snaps[j], r.Intn(3) == 0) {
					return
				}
				snaps[j].s.Release()
				atomic.AddInt64(&liveSnaps, -1)
				snaps = append(snaps[:j], snaps[j+1:]...)
				c.Count("snapshots_released_midway", 1)
				if len(snaps) > 0 && !checkSnap(snaps[r.Intn(len(snaps))], false) {
					return
				}
			case x < 52 && len(iters) > 0:
				j := r.Intn(len(iters))
				if iters[j].long {
					break
				}
				iters[j].it.Release()
				iters = append(iters[:j], iters[j+1:]...)
			case x < 54:
				// force background work to finish while handles are live
				if err := leveldb.VerifBarrier(ru.DB); err != nil {
					fail("barrier-error", err.Error(), nil)
					return
				}
				c.Count("barriers", 1)
			}
		}
		if failed {
			return
		}
		// Final: settle everything, then every remaining handle must still show its frozen contents.
		ru.DB.CompactRange(util.Range{})
		leveldb.VerifBarrier(ru.DB)
		for _, h := range snaps {
			if !checkSnap(h, true) {
				return
			}
		}
		for _, h := range iters {
			if !checkIter(h, true) {
				return
			}
		}
		if err := ru.Sweep(); err != nil {
			fail("live-db-mismatch", err.Error(), err)
		}
	})
	c.Eval()
	if ru != nil && !panicked {
		nlong := 0
		for _, h := range snaps {
			if h.long {
				nlong++
			}
		}
		c.Guard(i, "cleanup", func() {
			// random release order
			rand.New(rand.NewSource(int64(i))).Shuffle(len(snaps), func(a, b int) { snaps[a], snaps[b] = snaps[b], snaps[a] })
			for _, h := range iters {
				h.it.Release()
			}
			for _, h := range snaps {
				h.s.Release()
			}
			ru.Close()
		})
		c.Count("long_held_snapshots", int64(nlong))
		c.Count("version_installs", 0)
		c.Count("comparer:"+os.O.Comparer.Name(), 1)
		if !failed {
			c.Nontrivial(fmt.Sprintf("case-%d", i))
		}
		if c.WantSample() {
			c.Sample(map[string]interface{}{"case": i, "options": os.Desc, "nops": nops, "final_live_snapshots": len(snaps), "final_live_iterators": len(iters), "last_ops": ru.Trace[max(0, len(ru.Trace)-6):]})
		}
	}
	c.Count("compactions_started_while_a_snapshot_was_live", atomic.SwapInt64(&compactionsUnderSnapshot, 0))
}
