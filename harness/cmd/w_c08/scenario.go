package main

// Directed scenario family for C08: a transaction whose Commit fails because the manifest cannot be
// synced (its record has been written into the manifest file), is discarded while the manifest still
// cannot be replaced, and is followed by acknowledged (synced) plain writes; then Close and Open.
// Every acknowledged write must be there after the reopen. (Found by the random plans as
// "lost-acknowledged-write ... invalid sequence number (skipped)": the failed transaction's sequence
// numbers were handed to the later writes, and recovery rejected those as already applied.)

import (
	"bytes"
	"fmt"
	"sync/atomic"
	"time"

	"github.com/syndtr/goleveldb/leveldb"
	"github.com/syndtr/goleveldb/leveldb/opt"
	"github.com/syndtr/goleveldb/leveldb/storage"

	"verif/model"
	"verif/vstor"
	"verif/wk"
)

func scenarioFailedCommitThenWrites(c *wk.Ctx, i int) {
	r := c.Rand(i)
	os := model.RandomOptions(r, model.OptConstraints{DefaultComparer: true})
	os.O.WriteBuffer = []int{1 << 10, 4 << 10, 64 << 10}[r.Intn(3)]
	os.Desc["WriteBuffer"] = os.O.WriteBuffer
	c.Begin(i, fmt.Sprintf("scenario failed-commit-then-writes opts=%v", os.Desc))
	st := vstor.New(false)
	db, err := leveldb.Open(st, os.Clone())
	if err != nil {
		c.Violation(i, "open-failed", err.Error(), nil)
		return
	}
	kg := model.NewKeyGen(r, 30+r.Intn(100))
	M := model.NewMap(os.O.Comparer)
	wit := func() map[string]interface{} {
		lg := st.Logs()
		if len(lg) > 60 {
			lg = lg[len(lg)-60:]
		}
		var ll []string
		for _, l := range lg {
			ll = append(ll, l.Text)
		}
		return map[string]interface{}{"options": os.Desc, "db_log_tail": ll}
	}
	sync := &opt.WriteOptions{Sync: true}
	c.Guard(i, "C08 scenario", func() {
		defer func() { db.Close() }()
		for j := 0; j < r.Intn(60); j++ {
			k, v := kg.Pick(r), model.Value(1, uint32(j), 0, 10+r.Intn(100))
			if err := db.Put(k, v, sync); err != nil {
				c.Violation(i, "unexpected-error", "Put without faults: "+err.Error(), wit())
				return
			}
			M.Put(k, v)
		}
		tr, err := db.OpenTransaction()
		if err != nil {
			c.Violation(i, "unexpected-error", "OpenTransaction without faults: "+err.Error(), wit())
			return
		}
		ntx := 1 + r.Intn(80)
		txM := M.Clone()
		for j := 0; j < ntx; j++ {
			k, v := kg.Pick(r), model.Value(2, uint32(j), 0, 10+r.Intn(100))
			if err := tr.Put(k, v, nil); err != nil {
				tr.Discard()
				c.Violation(i, "unexpected-error", "Transaction.Put without faults: "+err.Error(), wit())
				return
			}
			txM.Put(k, v)
		}
		// No background commit may be in flight when the fault is armed: a compaction that is retrying its
		// own commit keeps the commit lock for as long as the fault lasts, and Commit would wait behind it
		// (blocking while a fault persists is C09's subject, not this scenario's).
		leveldb.VerifBarrier(db)
		// from now on the manifest cannot be synced (the bytes reach the file)
		flt := st.AddFault(vstor.Fault{Kind: vstor.OpSync, Type: storage.TypeManifest, Nth: 1, Count: -1})
		// safety net: the fault window ends by itself, so that the scenario cannot wait on it for ever
		var expired int32
		guard := time.AfterFunc(20*time.Second, func() { atomic.StoreInt32(&expired, 1); st.ClearFaults() })
		cerr := tr.Commit()
		if cerr == nil {
			guard.Stop()
			if atomic.LoadInt32(&expired) != 0 {
				c.Count("scenario_fault_window_expired", 1)
				return // not judged
			}
			c.Violation(i, "unexpected-success", "Commit succeeded although every manifest sync fails", wit())
			return
		}
		tr.Discard()
		guard.Stop()
		if atomic.LoadInt32(&expired) != 0 {
			c.Count("scenario_fault_window_expired", 1)
			return // not judged
		}
		c.Count("scenario_commits_failed_on_manifest_sync", 1)
		c.Count("scenario_manifest_sync_failures", int64(flt.Hits))
		// The storage recovers right after the discard. (While the manifest cannot be synced no flush can be
		// committed, and a writer that fills the buffer waits for that flush for as long as the fault lasts:
		// that is C09's subject, and not a state in which further writes can be acknowledged.)
		r.Intn(2)
		st.ClearFaults()
		// acknowledged writes after the failed transaction (fewer than the transaction had, or more)
		type ack struct{ k, v []byte }
		var acks []ack
		for j := 0; j < 1+r.Intn(2*ntx+4); j++ {
			k, v := kg.Pick(r), model.Value(3, uint32(j), 0, 10+r.Intn(100))
			if err := db.Put(k, v, sync); err == nil {
				acks = append(acks, ack{k, v})
				M.Put(k, v)
				txM.Put(k, v)
			} else {
				// fate unknown: stop writing this key's history here
				break
			}
		}
		c.Count("scenario_writes_acknowledged_after_the_failed_commit", int64(len(acks)))
		st.ClearFaults()
		db.Close()
		db2, err := leveldb.Open(st, os.Clone())
		if err != nil {
			c.Violation(i, "reopen-failed", "Open after failed commit, discard and acknowledged writes: "+err.Error(), wit())
			return
		}
		db = db2
		// the failed transaction may be wholly there or wholly absent; the acknowledged writes must be there
		last := map[string][]byte{}
		for _, a := range acks {
			last[string(a.k)] = a.v
		}
		for k, v := range last {
			got, gerr := db.Get([]byte(k), nil)
			if gerr != nil || !bytes.Equal(got, v) {
				c.Violation(i, "contents-after-reopen:lost-acknowledged-write", fmt.Sprintf("after a transaction commit that failed on the manifest sync and was discarded, %d writes were acknowledged with Sync; after Close and Open, Get(%x) = %.40x (err %v), want %.40x", len(acks), k, got, gerr, v), wit())
				return
			}
		}
		// every key reads as in the state without or with the transaction
		for _, k := range kg.Pool {
			got, gerr := db.Get(k, nil)
			a, al := M.Get(k)
			b, bl := txM.Get(k)
			okA := al && gerr == nil && bytes.Equal(got, a) || !al && gerr == leveldb.ErrNotFound
			okB := bl && gerr == nil && bytes.Equal(got, b) || !bl && gerr == leveldb.ErrNotFound
			if !okA && !okB {
				c.Violation(i, "contents-after-reopen:unexplained-value", fmt.Sprintf("after reopen Get(%x) = %.40x (err %v); without the failed transaction %.40x live=%v, with it %.40x live=%v", k, got, gerr, a, al, b, bl), wit())
				return
			}
		}
		c.Nontrivial(fmt.Sprintf("scenario-%d", i))
	})
	c.Eval()
}
