// Worker for C08: storage errors never cause wrong answers or loss of acknowledged
// writes. A recorded client runs while a fault plan is armed on the checker storage;
// successful reads are judged against per-key possible-value sets while running, and
// the full possible-value oracle runs after faults stop and after close/reopen.
package main

import (
	"fmt"
	"math/rand"
	"time"

	"github.com/syndtr/goleveldb/leveldb"
	"github.com/syndtr/goleveldb/leveldb/storage"
	"github.com/syndtr/goleveldb/leveldb/util"

	"verif/hist"
	"verif/model"
	"verif/vstor"
	"verif/wk"
	"verif/wl"
)

func main() { wk.Main("C08", run) }

type plan struct {
	Kind   vstor.OpKind
	Type   storage.FileType
	Mode   string // once | burst3 | forever
	Short  bool
	Flip   bool
	Dist   int // client operations between the first hit and clearing/closing
	Second *plan
}

func (p plan) String() string {
	s := fmt.Sprintf("%s/%s/%s", p.Kind, vstor.TypeName(p.Type), p.Mode)
	if p.Short {
		s += "/short-write"
	}
	if p.Flip {
		s += "/bit-flip"
	}
	s += fmt.Sprintf("/dist=%d", p.Dist)
	if p.Second != nil {
		s += "+" + p.Second.String()
	}
	return s
}

var kinds = []struct {
	k vstor.OpKind
	t []storage.FileType
}{
	{vstor.OpCreate, []storage.FileType{storage.TypeManifest, storage.TypeJournal, storage.TypeTable}},
	{vstor.OpWrite, []storage.FileType{storage.TypeManifest, storage.TypeJournal, storage.TypeTable}},
	{vstor.OpSync, []storage.FileType{storage.TypeManifest, storage.TypeJournal, storage.TypeTable}},
	// failing close(2) is not in the statement's list of failures (writes, syncs, creates, opens,
	// reads, removes, renames): not injected.
	{vstor.OpOpen, []storage.FileType{storage.TypeTable}},
	{vstor.OpReadAt, []storage.FileType{storage.TypeTable}},
	{vstor.OpRemove, []storage.FileType{storage.TypeManifest, storage.TypeJournal, storage.TypeTable}},
	{vstor.OpSetMeta, []storage.FileType{storage.TypeManifest}},
}

var dists = []int{0, 1, 3, 10, 60}

func enumerate() []plan {
	var out []plan
	for _, kd := range kinds {
		for _, t := range kd.t {
			for _, mode := range []string{"once", "burst3", "forever"} {
				for _, d := range dists {
					out = append(out, plan{Kind: kd.k, Type: t, Mode: mode, Dist: d})
					if kd.k == vstor.OpWrite && mode != "forever" {
						out = append(out, plan{Kind: kd.k, Type: t, Mode: mode, Dist: d, Short: true})
					}
				}
			}
		}
	}
	for _, d := range dists {
		out = append(out, plan{Kind: vstor.OpReadAt, Type: storage.TypeTable, Mode: "once", Flip: true, Dist: d})
		out = append(out, plan{Kind: vstor.OpReadAt, Type: storage.TypeTable, Mode: "burst3", Flip: true, Dist: d})
	}
	return out
}

func run(c *wk.Ctx) {
	plans := enumerate()
	reps := c.Pick(3, 12) // positions (program seeds) per plan
	n := len(plans) * reps
	pairs := c.Pick(150, 1500)
	for i := 0; i < n+pairs; i++ {
		if !c.Mine(i) {
			continue
		}
		r := c.Rand(i)
		var p plan
		if i < n {
			p = plans[i%len(plans)]
		} else {
			p = plans[r.Intn(len(plans))]
			q := plans[r.Intn(len(plans))]
			p.Second = &q
		}
		runCase(c, i, p, r)
	}
	// extra positions for the manifest plans: what a failed or half-failed manifest append leaves behind (in memory
	// and in the file) decides the fate of everything committed after it, and shows only after a reopen
	var mplans []plan
	for _, p := range plans {
		if p.Type == storage.TypeManifest {
			mplans = append(mplans, p)
		}
	}
	// directed: failed Commit (manifest sync), discard, acknowledged writes, reopen (each takes ~3 s: Commit pauses
	// one second between its retries)
	for j := 0; j < c.Pick(16, 96); j++ {
		if i := 4000000 + j; c.Mine(i) {
			scenarioFailedCommitThenWrites(c, i)
		}
	}
	extra := len(mplans) * c.Pick(6, 12)
	for j := 0; j < extra; j++ {
		i := 3000000 + j
		if c.Mine(i) {
			runCase(c, i, mplans[j%len(mplans)], c.Rand(i))
		}
	}
}

func arm(st *vstor.Stor, p plan, nth int) *vstor.Fault {
	f := vstor.Fault{Kind: p.Kind, Type: p.Type, Nth: nth, Short: p.Short, Flip: p.Flip}
	switch p.Mode {
	case "once":
		f.Count = 1
	case "burst3":
		f.Count = 3
	default:
		f.Count = -1
	}
	return st.AddFault(f)
}

func runCase(c *wk.Ctx, i int, p plan, r *rand.Rand) {
	os := model.RandomOptions(r, model.OptConstraints{DefaultComparer: true})
	os.O.WriteBuffer = []int{1 << 10, 2 << 10, 4 << 10}[r.Intn(3)]
	os.Desc["WriteBuffer"] = os.O.WriteBuffer
	c.Begin(i, fmt.Sprintf("plan=%s opts=%v", p, os.Desc))
	type result struct {
		sig, msg string
		w        map[string]interface{}
		hit      bool
		surfaced map[string]int64
		stats    map[string]int64
		bigKeys  bool
	}
	done := make(chan result, 1)
	go func() {
		res := result{surfaced: map[string]int64{}}
		defer func() {
			if x := recover(); x != nil {
				res.sig, res.msg = "panic:"+wk.PanicSite(fmt.Sprint(x)), fmt.Sprintf("panic under fault plan %s: %v", p, x)
			}
			done <- res
		}()
		st := vstor.New(false)
		db, err := leveldb.Open(st, os.Clone())
		if err != nil {
			res.sig, res.msg = "open-failed", err.Error()
			return
		}
		kg := model.NewKeyGen(r, 40+r.Intn(200))
		if i%6 == 4 {
			// keys of a few KiB: manifest and journal records then span 32 KiB journal blocks (several writes per record)
			kg.Inflate(r, 1500, 7500)
			res.bigKeys = true
		}
		cl := wl.NewClient(db, st, r, kg, os.O, 1)
		wit := func(extra map[string]interface{}) map[string]interface{} {
			m := map[string]interface{}{"plan": p.String(), "options": os.Desc, "last_writes": cl.LastKinds, "client_stats": cl.Stats}
			lg := st.Logs()
			if len(lg) > 60 {
				lg = lg[len(lg)-60:]
			}
			var ll []string
			for _, l := range lg {
				ll = append(ll, l.Text)
			}
			m["db_log_tail"] = ll
			for k, v := range extra {
				m[k] = v
			}
			return m
		}
		step := func() bool {
			if r.Intn(3) == 0 {
				if rp := cl.Read(); rp != nil {
					res.sig, res.msg, res.w = "wrong-value-served", fmt.Sprintf("Get(%s) returned %s under fault plan %s; explainable: %v", rp.Key, rp.Got, p, rp.Want), wit(map[string]interface{}{"read": rp})
					return false
				}
			} else if r.Intn(40) == 0 {
				db.CompactRange(util.Range{})
			} else {
				cl.Write()
				if rp := cl.TxProblem; rp != nil {
					res.sig, res.msg, res.w = "wrong-value-served", fmt.Sprintf("Transaction.Get(%s) returned %s under fault plan %s; explainable: %v", rp.Key, rp.Got, p, rp.Want), wit(map[string]interface{}{"read": rp, "inside_transaction": true})
					return false
				}
			}
			return true
		}
		// warm-up without faults
		warm := 20 + r.Intn(300)
		for n := 0; n < warm; n++ {
			if !step() {
				db.Close()
				return
			}
		}
		f1 := arm(st, p, 1+r.Intn(3))
		var f2 *vstor.Fault
		if p.Second != nil {
			f2 = arm(st, *p.Second, 1+r.Intn(6))
		}
		// run until the fault is hit, then Dist more operations
		hitAt := -1
		for n := 0; n < 500; n++ {
			if !step() {
				db.Close()
				return
			}
			if hitAt < 0 && f1.Hits > 0 {
				hitAt = n
			}
			if hitAt >= 0 && n-hitAt >= p.Dist {
				break
			}
		}
		res.hit = f1.Hits > 0
		if f2 != nil && f2.Hits > 0 {
			res.surfaced["second_fault_hit"]++
		}
		st.ClearFaults()
		if r.Intn(2) == 0 {
			// continued use after the faults stopped
			for n := 0; n < 30; n++ {
				if !step() {
					db.Close()
					return
				}
			}
			res.surfaced["continued_use_after_faults"]++
		}
		check := func(db *leveldb.DB, when string) bool {
			obs, err := wl.Observe(db)
			if err != nil {
				// an iteration error after the faults have stopped: the DB may be in its persistent error state
				// for reads too (corruption found by a compaction): reads carry no information then.
				res.surfaced["iteration_error_"+when]++
				if when == "after-reopen" {
					res.sig, res.msg, res.w = "read-error-after-reopen", "full iteration fails after a fault-free reopen: "+err.Error(), wit(nil)
					return false
				}
				return true
			}
			probs, hs := hist.Check(cl.H.Batches(), wl.APIStatus, obs)
			res.surfaced["batches_required_"+when] += int64(hs.Required)
			res.surfaced["batches_unknown_fate_present_"+when] += int64(hs.OptionalPresent)
			res.surfaced["batches_unknown_fate_absent_"+when] += int64(hs.OptionalAbsent)
			if len(probs) > 0 {
				res.sig, res.msg, res.w = "contents-"+when+":"+probs[0].Kind, fmt.Sprintf("fault plan %s, %s: %s", p, when, probs[0].Text), wit(map[string]interface{}{"problems": probs})
				return false
			}
			return true
		}
		if !check(db, "after-faults-stopped") {
			db.Close()
			return
		}
		if err := db.Close(); err != nil {
			res.surfaced["close_returned_error"]++
		}
		// In half of the cases the recovery itself runs into a failure first (any operation kind on
		// any file type, at one of its first operations); whether that Open fails or not, a later
		// fault-free Open must succeed and show the same contents.
		if r.Intn(2) == 0 {
			ks := []vstor.OpKind{vstor.OpOpen, vstor.OpReadAt, vstor.OpCreate, vstor.OpWrite, vstor.OpSync, vstor.OpRemove, vstor.OpSetMeta, vstor.OpList, vstor.OpGetMeta}
			ts := []storage.FileType{storage.TypeManifest, storage.TypeJournal, storage.TypeTable}
			k := ks[r.Intn(len(ks))]
			f := vstor.Fault{Kind: k, Nth: 1 + r.Intn(4), Count: 1 + r.Intn(3)}
			if k != vstor.OpList && k != vstor.OpGetMeta {
				f.Type = ts[r.Intn(len(ts))]
			}
			rf := st.AddFault(f)
			dbr, rerr := leveldb.Open(st, os.Clone())
			st.ClearFaults()
			if rerr == nil {
				// it opened in spite of (or without meeting) the fault: use it briefly, then close
				for n := 0; n < 5; n++ {
					cl.DB = dbr
					if rp := cl.Read(); rp != nil {
						res.sig, res.msg, res.w = "wrong-value-served", fmt.Sprintf("after a recovery that met a fault, Get(%s) returned %s; explainable: %v", rp.Key, rp.Got, rp.Want), wit(map[string]interface{}{"read": rp})
						dbr.Close()
						return
					}
				}
				dbr.Close()
			}
			if rf.Hits > 0 {
				res.surfaced["faults_hit_during_recovery"]++
				if rerr != nil {
					res.surfaced["recovery_failed_under_fault"]++
				}
			}
		}
		db2, err := leveldb.Open(st, os.Clone())
		if err != nil {
			res.sig, res.msg, res.w = "reopen-failed-after-faults", fmt.Sprintf("fault plan %s: fault-free Open after Close failed: %v", p, err), wit(nil)
			return
		}
		ok := check(db2, "after-reopen")
		db2.Close()
		if !ok {
			return
		}
		// how the fault surfaced
		if cl.Stats["writes_failed"] > 0 {
			res.surfaced["surfaced_as_write_error"]++
		}
		if cl.Stats["reads_failed"] > 0 {
			res.surfaced["surfaced_as_read_error"]++
		}
		for _, l := range st.Logs() {
			if len(l.Text) > 9 && (contains(l.Text, "retrying") || contains(l.Text, " error ")) {
				res.surfaced["surfaced_in_db_log(retry/error)"]++
				break
			}
		}
		res.stats = cl.Stats
	}()
	var res result
	select {
	case res = <-done:
	case <-time.After(60 * time.Second):
		// A stuck call is C09's business; here the case simply cannot be judged.
		c.Inconclusive("case-stuck(see C09)")
		c.Count("cases_stuck", 1)
		return
	}
	c.Eval()
	c.Count("plans_run", 1)
	if res.sig != "" {
		c.Violation(i, res.sig, res.msg, res.w)
		return
	}
	if !res.hit {
		c.Count("plans_never_hit", 1)
		return
	}
	c.Count("plans_hit", 1)
	if res.bigKeys {
		c.Count("plans_hit_with_keys_of_several_KiB", 1)
	}
	c.Count(fmt.Sprintf("hit:%s/%s/%s", p.Kind, vstor.TypeName(p.Type), p.Mode), 1)
	c.Distinct("fault_cells", fmt.Sprintf("%s/%s/%s/%v/%v", p.Kind, vstor.TypeName(p.Type), p.Mode, p.Short, p.Flip))
	for k, v := range res.surfaced {
		c.Count(k, v)
	}
	for k, v := range res.stats {
		c.Count("client:"+k, v)
	}
	c.Nontrivial(fmt.Sprintf("case-%d", i))
	if c.WantSample() {
		c.Sample(map[string]interface{}{"case": i, "plan": p.String(), "options": os.Desc, "client": res.stats, "observed": res.surfaced})
	}
}

func contains(s, sub string) bool {
	for i := 0; i+len(sub) <= len(s); i++ {
		if s[i:i+len(sub)] == sub {
			return true
		}
	}
	return false
}
