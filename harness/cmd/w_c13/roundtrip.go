package main

import (
	"bytes"
	"fmt"
	"sort"

	"github.com/syndtr/goleveldb/leveldb/iterator"
	"github.com/syndtr/goleveldb/leveldb/opt"
	"github.com/syndtr/goleveldb/leveldb/table"
	"github.com/syndtr/goleveldb/leveldb/util"

	"verif/model"
)

// build writes the table and returns its bytes.
func (tc *tcase) build() bool {
	var buf bytes.Buffer
	wsize := pickInt(tc.r, 0, tc.blockSize, 2*tc.blockSize+5)
	pool := tc.bpool
	if tc.r.Intn(3) == 0 {
		pool = nil
	}
	w := table.NewWriter(&buf, tc.wo, pool, wsize)
	for j, kv := range tc.L {
		if err := w.Append(kv.K, kv.V); err != nil {
			tc.fail("roundtrip:write", fmt.Sprintf("Append of entry %d of a strictly increasing input failed: %v", j, err),
				map[string]interface{}{"entry": j, "key_hex": hx(kv.K)})
			return false
		}
	}
	if err := w.Close(); err != nil {
		tc.fail("roundtrip:write", fmt.Sprintf("Writer.Close failed: %v", err), nil)
		return false
	}
	tc.img = append([]byte{}, buf.Bytes()...)
	tc.count("table_bytes", int64(len(tc.img)))
	tc.c.Max("largest_table_bytes", int64(len(tc.img)))
	tc.count("writer_blocks", int64(w.BlocksLen()))
	return true
}

// describeLayout parses the image with the harness parser and records layout facts.
func (tc *tcase) describeLayout() {
	lay, err := parseLayout(tc.img)
	if err != nil {
		tc.c.Inconclusive("harness-layout-parser-could-not-read-the-table")
		return
	}
	tc.lay = lay
	if !lay.tiled {
		tc.count("wb_layout_regions_do_not_tile_the_file", 1)
	}
	tc.count("data_blocks", int64(len(lay.data)))
	tc.count("blocks_per_table:"+blocksBucket(len(lay.data)), 1)
	tc.c.Max("most_data_blocks_in_a_table", int64(len(lay.data)))
	if lay.hasFilter {
		tc.count("tables_with_filter_block", 1)
	}
	// White-box facts (counted, never a verdict): the file holds the input pairs;
	// every index key is a separator in [last key of its block, first key of the next).
	same := len(lay.entries) == len(tc.L)
	for j := 0; same && j < len(tc.L); j++ {
		same = bytes.Equal(lay.entries[j].key, tc.L[j].K) && bytes.Equal(lay.entries[j].value, tc.L[j].V)
	}
	if !same {
		tc.count("wb_file_entries_differ_from_input", 1)
	}
	for bi, b := range lay.data {
		if b.nEntries == 0 {
			tc.count("empty_data_blocks", 1)
			continue
		}
		if b.nEntries == 1 {
			tc.count("single_entry_data_blocks", 1)
		}
		if b.nRestarts > 1 {
			tc.count("data_blocks_with_several_restart_points", 1)
		}
		if b.h.length > tc.blockSize+tc.blockSize/2 {
			tc.count("data_blocks_much_larger_than_block_size", 1)
		}
		sep := lay.indexKeys[bi]
		last := b.first + b.nEntries - 1
		if last >= len(tc.L) {
			continue
		}
		if _, stored := tc.idx[string(sep)]; stored {
			tc.count("index_keys_unshortened", 1)
		} else {
			tc.count("index_keys_shortened", 1)
			if tc.internal {
				tc.count("index_keys_shortened_with_sequence_suffix", 1)
			}
		}
		if tc.internal && bi+1 < len(lay.data) && last+1 < len(tc.L) {
			ua, _, _, _ := parseIK(tc.L[last].K)
			ub, _, _, _ := parseIK(tc.L[last+1].K)
			if bytes.Equal(ua, ub) {
				tc.count("block_boundaries_inside_one_user_key", 1)
			}
		}
		okLaw := tc.cmp.Compare(sep, tc.L[last].K) >= 0
		if okLaw && last+1 < len(tc.L) {
			okLaw = tc.cmp.Compare(sep, tc.L[last+1].K) < 0
		}
		if !okLaw {
			tc.count("wb_index_key_outside_separator_range", 1)
		}
	}
}

func (tc *tcase) expIndex(probe []byte) int {
	return sort.Search(len(tc.L), func(j int) bool { return tc.cmp.Compare(tc.L[j].K, probe) >= 0 })
}

func (tc *tcase) mutate(k []byte) []byte {
	if tc.internal {
		return mutateInternal(tc.r, k)
	}
	return mutateRaw(tc.r, k)
}

var readOpts = []*opt.ReadOptions{nil, {}, {DontFillCache: true}, {Strict: opt.StrictAll}, {DontFillCache: true, Strict: opt.NoStrict}}

func (tc *tcase) rop() *opt.ReadOptions { return readOpts[tc.r.Intn(len(readOpts))] }

// checkFind runs Find / FindKey / Get for one probe on one reader and compares with the sorted input.
func (tc *tcase) checkFind(rd *table.Reader, probe []byte, kind string) {
	n := len(tc.L)
	e := tc.expIndex(probe)
	stored := e < n && bytes.Equal(tc.L[e].K, probe)
	filtered := tc.r.Intn(2) == 0
	// With a filter policy on the reader and filtered=true, a probe that is not
	// stored may be answered ErrNotFound by the filter (documented on Find).
	mayBeFilteredOut := filtered && tc.readerHasFilter && !stored
	ro := tc.rop()

	explain := func(what string, rkey, val []byte, err error) map[string]interface{} {
		w := map[string]interface{}{"query": what, "probe_hex": hx(probe), "probe_kind": kind, "filtered": filtered,
			"got_key_hex": hx(rkey), "got_value_hex": hx(val), "got_err": fmt.Sprint(err), "expected_index": e}
		if e < n {
			w["expected_key_hex"], w["expected_value_hex"] = hx(tc.L[e].K), hx(tc.L[e].V)
		} else {
			w["expected"] = "ErrNotFound"
		}
		return w
	}

	// Find
	rkey, val, err := rd.Find(probe, filtered, ro)
	tc.count("q:find", 1)
	tc.count("q:find:"+kind, 1)
	switch {
	case err == table.ErrNotFound && (e == n || mayBeFilteredOut):
		if e < n {
			tc.count("q:find:answered_by_filter", 1)
		}
	case err != nil:
		tc.fail("roundtrip:find", fmt.Sprintf("Find(%s probe) returned %v", kind, err), explain("Find", rkey, val, err))
	case e == n:
		tc.fail("roundtrip:find", fmt.Sprintf("Find(%s probe) past the last key returned a pair", kind), explain("Find", rkey, val, err))
	case !bytes.Equal(rkey, tc.L[e].K) || !bytes.Equal(val, tc.L[e].V):
		tc.fail("roundtrip:find", fmt.Sprintf("Find(%s probe) did not return the first pair >= probe", kind), explain("Find", rkey, val, err))
	}
	// FindKey
	if tc.r.Intn(2) == 0 {
		rkey, err := rd.FindKey(probe, filtered, ro)
		tc.count("q:findkey", 1)
		switch {
		case err == table.ErrNotFound && (e == n || mayBeFilteredOut):
		case err != nil:
			tc.fail("roundtrip:findkey", fmt.Sprintf("FindKey(%s probe) returned %v", kind, err), explain("FindKey", rkey, nil, err))
		case e == n || !bytes.Equal(rkey, tc.L[e].K):
			tc.fail("roundtrip:findkey", fmt.Sprintf("FindKey(%s probe) did not return the first key >= probe", kind), explain("FindKey", rkey, nil, err))
		}
	}
	// Get
	if stored || tc.r.Intn(2) == 0 {
		v, err := rd.Get(probe, ro)
		tc.count("q:get", 1)
		switch {
		case stored && (err != nil || !bytes.Equal(v, tc.L[e].V)):
			tc.fail("roundtrip:get", "Get of a stored key did not return its value", explain("Get", nil, v, err))
		case !stored && err != table.ErrNotFound:
			tc.fail("roundtrip:get", "Get of a key that is not stored did not return ErrNotFound", explain("Get", nil, v, err))
		}
	}
}

func (tc *tcase) probeKind(p []byte) string {
	n := len(tc.L)
	e := tc.expIndex(p)
	switch {
	case e < n && bytes.Equal(tc.L[e].K, p):
		return "exact"
	case e == n:
		return "after-last"
	case e == 0:
		return "before-first"
	}
	return "between"
}

func (tc *tcase) lookups(rds []*table.Reader) {
	n := len(tc.L)
	pick := func() *table.Reader { return rds[tc.r.Intn(len(rds))] }
	perKey := 2
	if n > 500 {
		perKey = 1
	}
	// order of visits: mostly sequential, sometimes shuffled (cache / pool reuse patterns)
	order := make([]int, n)
	for j := range order {
		order[j] = j
	}
	if tc.r.Intn(2) == 0 {
		tc.r.Shuffle(n, func(a, b int) { order[a], order[b] = order[b], order[a] })
	}
	for _, j := range order {
		tc.checkFind(pick(), tc.L[j].K, "exact")
		for p := 0; p < perKey; p++ {
			pr := tc.mutate(tc.L[j].K)
			tc.checkFind(pick(), pr, tc.probeKind(pr))
			if len(tc.probes) < 4000 {
				tc.probes = append(tc.probes, pr)
			}
		}
	}
	// probes aimed at both ends, and at an empty table
	var ends [][]byte
	if n > 0 {
		for t := 0; t < 6; t++ {
			ends = append(ends, tc.mutate(tc.L[0].K), tc.mutate(tc.L[n-1].K))
		}
	} else {
		var base []byte
		if tc.internal {
			base = mkIK([]byte("probe"), 7, 1)
		} else {
			base = []byte("probe")
		}
		ends = append(ends, base, tc.mutate(base), tc.mutate(base))
		if !tc.internal {
			ends = append(ends, []byte{})
		}
	}
	for _, pr := range ends {
		tc.checkFind(pick(), pr, tc.probeKind(pr))
		tc.probes = append(tc.probes, pr)
	}
}

// offsets checks OffsetOf along probes sorted with the comparer in use.
func (tc *tcase) offsets(rd *table.Reader) {
	var ps [][]byte
	for _, kv := range tc.L {
		ps = append(ps, kv.K)
	}
	ps = append(ps, tc.probes...)
	sort.SliceStable(ps, func(a, b int) bool { return tc.cmp.Compare(ps[a], ps[b]) < 0 })
	prev := int64(0)
	var prevKey []byte
	distinct := 0
	for k, p := range ps {
		off, err := rd.OffsetOf(p)
		tc.count("q:offsetof", 1)
		if err != nil {
			tc.fail("roundtrip:offsetof", fmt.Sprintf("OffsetOf returned %v", err), map[string]interface{}{"probe_hex": hx(p)})
			return
		}
		if off < 0 || off > int64(len(tc.img)) {
			tc.fail("roundtrip:offsetof", fmt.Sprintf("OffsetOf = %d outside [0, file size %d]", off, len(tc.img)), map[string]interface{}{"probe_hex": hx(p)})
			return
		}
		if k > 0 && off < prev {
			tc.fail("roundtrip:offsetof", fmt.Sprintf("OffsetOf decreased from %d to %d as the key grew", prev, off),
				map[string]interface{}{"smaller_key_hex": hx(prevKey), "larger_key_hex": hx(p)})
			return
		}
		if k == 0 || off != prev {
			distinct++
		}
		prev, prevKey = off, p
	}
	tc.count("offsetof_distinct_values", int64(distinct))
}

// walker is one real iterator paired with the cursor model over its range.
type walker struct {
	it    iterator.Iterator
	cur   *model.Cursor
	desc  string
	sig   string
	trace []string
	steps int
	lastD int // +1 last move was forward, -1 backward, 0 none
}

func (tc *tcase) newWalker(rd *table.Reader, slice *util.Range, ro *opt.ReadOptions) *walker {
	l := tc.L
	desc := "full"
	sig := "roundtrip:iter-full"
	if slice != nil {
		lo, hi := 0, len(tc.L)
		if slice.Start != nil {
			lo = tc.expIndex(slice.Start)
		}
		if slice.Limit != nil {
			hi = tc.expIndex(slice.Limit)
		}
		if hi < lo {
			hi = lo
		}
		l = tc.L[lo:hi]
		desc = fmt.Sprintf("range[start=%s limit=%s] = entries %d..%d", hx(slice.Start), hx(slice.Limit), lo, hi)
		sig = "roundtrip:iter-range"
		tc.count("range_iterators", 1)
		if hi == lo {
			tc.count("range_iterators_empty", 1)
		}
	} else {
		tc.count("full_iterators", 1)
	}
	return &walker{it: rd.NewIterator(slice, ro), cur: model.NewCursor(l, tc.cmp), desc: desc, sig: sig}
}

// step performs one movement on both and compares; false = mismatch reported.
func (tc *tcase) step(w *walker, op string, arg []byte) bool {
	var got, exp bool
	before := w.cur.P
	switch op {
	case "First":
		got, exp = w.it.First(), w.cur.First()
	case "Last":
		got, exp = w.it.Last(), w.cur.Last()
	case "Next":
		got, exp = w.it.Next(), w.cur.Next()
	case "Prev":
		got, exp = w.it.Prev(), w.cur.Prev()
	case "Seek":
		got, exp = w.it.Seek(arg), w.cur.Seek(arg)
	}
	w.steps++
	tc.count("iter_steps", 1)
	tc.count("iter:"+op, 1)
	d := 0
	switch op {
	case "Next":
		d = 1
	case "Prev":
		d = -1
	}
	if d != 0 && w.lastD == -d {
		tc.count("iter_reversals", 1)
	}
	w.lastD = d
	nl := len(w.cur.L)
	if op == "Next" && before == nl-1 || op == "Next" && before == nl {
		tc.count("iter_stepped_off_the_end", 1)
	}
	if op == "Prev" && before == 0 || op == "Prev" && before == -1 {
		tc.count("iter_stepped_off_the_start", 1)
	}
	t := op
	if op == "Seek" {
		t = "Seek(" + hx(arg) + ")"
	}
	if len(w.trace) >= 24 {
		w.trace = append(w.trace[:0], w.trace[1:]...)
	}
	w.trace = append(w.trace, fmt.Sprintf("%s->%v@%d", t, exp, w.cur.P))
	valid := w.it.Valid()
	k, v := w.it.Key(), w.it.Value()
	err := w.it.Error()
	bad := ""
	switch {
	case err != nil:
		bad = fmt.Sprintf("iterator error %v", err)
	case got != exp:
		bad = fmt.Sprintf("%s returned %v, model %v", op, got, exp)
	case valid != w.cur.Valid():
		bad = fmt.Sprintf("Valid() = %v, model %v", valid, w.cur.Valid())
	case !bytes.Equal(k, w.cur.Key()):
		bad = "Key() differs from the model"
	case !bytes.Equal(v, w.cur.Value()):
		bad = "Value() differs from the model"
	}
	if bad == "" {
		return true
	}
	sig := w.sig
	if len(tc.L) == 0 && err != nil && w.sig == "roundtrip:iter-range" {
		// dedicated signature: a range iterator over the empty table reports an error
		sig = "empty-table:range-iterator-error"
	}
	tc.fail(sig, fmt.Sprintf("%s iterator after %s: %s", w.desc, t, bad), map[string]interface{}{
		"iterator": w.desc, "last_moves(op->model result@model position)": append([]string{}, w.trace...),
		"got_bool": got, "got_valid": valid, "got_key_hex": hx(k), "got_value_hex": hx(v), "got_err": fmt.Sprint(err),
		"model_position": w.cur.P, "model_len": nl, "model_key_hex": hx(w.cur.Key()), "model_value_hex": hx(w.cur.Value()),
	})
	return false
}

func (tc *tcase) seekTarget() []byte {
	n := len(tc.L)
	switch x := tc.r.Intn(10); {
	case x < 5 && n > 0:
		return tc.L[tc.r.Intn(n)].K
	case x < 8 && len(tc.probes) > 0:
		return tc.probes[tc.r.Intn(len(tc.probes))]
	case n > 0:
		return tc.mutate(tc.L[tc.r.Intn(n)].K)
	}
	if len(tc.probes) > 0 {
		return tc.probes[tc.r.Intn(len(tc.probes))]
	}
	if tc.internal {
		return mkIK([]byte("x"), 1, 1)
	}
	return []byte("x")
}

// scans: complete forward and backward passes with extra steps past both ends and a reversal.
func (tc *tcase) scans(w *walker) bool {
	nl := len(w.cur.L)
	if !tc.step(w, "First", nil) {
		return false
	}
	for j := 0; j < nl+2; j++ {
		if !tc.step(w, "Next", nil) {
			return false
		}
	}
	for j := 0; j < nl+3; j++ {
		if !tc.step(w, "Prev", nil) {
			return false
		}
	}
	if !tc.step(w, "Next", nil) || !tc.step(w, "Last", nil) {
		return false
	}
	for j := 0; j < 3 && j < nl+1; j++ {
		if !tc.step(w, "Prev", nil) {
			return false
		}
	}
	tc.count("full_passes_both_directions", 1)
	return true
}

// randomWalk: seeded movement sequence with runs, reversals and steps off both ends.
func (tc *tcase) randomWalk(ws []*walker, steps int) {
	alive := append([]*walker{}, ws...)
	maxRun := 2*tc.restart + 4
	for s := 0; s < steps && len(alive) > 0; {
		wi := tc.r.Intn(len(alive))
		w := alive[wi]
		ok := true
		run := 1
		var op string
		switch x := tc.r.Intn(100); {
		case x < 30:
			op, run = "Next", 1+tc.r.Intn(maxRun)
		case x < 58:
			op, run = "Prev", 1+tc.r.Intn(maxRun)
		case x < 78:
			op = "Seek"
		case x < 84:
			op = "First"
		case x < 90:
			op = "Last"
		case x < 95: // off the end and back
			ok = tc.step(w, "Last", nil) && tc.step(w, "Next", nil) && tc.step(w, "Next", nil) && tc.step(w, "Prev", nil) && tc.step(w, "Prev", nil)
			s += 5
			run = 0
		default: // off the start and back
			ok = tc.step(w, "First", nil) && tc.step(w, "Prev", nil) && tc.step(w, "Prev", nil) && tc.step(w, "Next", nil) && tc.step(w, "Next", nil)
			s += 5
			run = 0
		}
		for k := 0; ok && k < run; k++ {
			var arg []byte
			if op == "Seek" {
				arg = tc.seekTarget()
			}
			ok = tc.step(w, op, arg)
			s++
		}
		if !ok {
			alive = append(alive[:wi], alive[wi+1:]...)
		}
	}
}

func (tc *tcase) randomRange() *util.Range {
	n := len(tc.L)
	bound := func() []byte {
		switch x := tc.r.Intn(10); {
		case x < 2:
			return nil
		case x < 6 && n > 0:
			return tc.L[tc.r.Intn(n)].K
		}
		return tc.seekTarget()
	}
	a, b := bound(), bound()
	if a != nil && b != nil && tc.cmp.Compare(a, b) > 0 {
		a, b = b, a
	}
	return &util.Range{Start: a, Limit: b}
}

func (tc *tcase) iteration(rds []*table.Reader) {
	pick := func() *table.Reader { return rds[tc.r.Intn(len(rds))] }
	n := len(tc.L)
	var all []*walker
	release := func() {
		for _, w := range all {
			w.it.Release()
		}
		all = nil
	}
	defer release()

	// complete passes: full iterator and two range iterators
	full := tc.newWalker(pick(), nil, tc.rop())
	all = append(all, full)
	if !tc.scans(full) {
		return
	}
	nranges := 2 + tc.r.Intn(3)
	var ranged []*walker
	for k := 0; k < nranges; k++ {
		w := tc.newWalker(pick(), tc.randomRange(), tc.rop())
		all = append(all, w)
		ranged = append(ranged, w)
		if k < 2 && !tc.scans(w) {
			return
		}
	}
	// interleaved random walks over several live iterators (they share cached
	// blocks and pooled buffers)
	steps := 300 + 2*n
	if steps > 2500 {
		steps = 2500
	}
	if !tc.c.Quick() {
		steps *= 2
	}
	ws := []*walker{full, tc.newWalker(pick(), nil, tc.rop())}
	all = append(all, ws[1])
	tc.randomWalk(ws, steps)
	tc.randomWalk(ranged, steps)
}

// roundTrip is the first half of a case. It returns false when the table could not be produced or opened.
func (tc *tcase) roundTrip() bool {
	if !tc.build() {
		return false
	}
	tc.describeLayout()

	nreaders := 1 + tc.r.Intn(2)
	var rds []*table.Reader
	for k := 0; k < nreaders; k++ {
		rd, _, err := tc.open(tc.img, tc.ro)
		if err != nil || rd == nil {
			tc.fail("roundtrip:open", fmt.Sprintf("NewReader on an unaltered table failed: %v", err), nil)
			return false
		}
		rds = append(rds, rd)
	}
	tc.count("readers_opened", int64(nreaders))
	if nreaders > 1 && tc.cache != nil {
		tc.count("tables_read_by_two_readers_sharing_a_cache", 1)
	}
	tc.lookups(rds)
	tc.iteration(rds)
	tc.offsets(rds[tc.r.Intn(len(rds))])
	// a second look after everything else ran (cache and pool have been churned)
	for k := 0; k < 8 && len(tc.L) > 0; k++ {
		tc.checkFind(rds[tc.r.Intn(len(rds))], tc.L[tc.r.Intn(len(tc.L))].K, "exact")
	}
	for _, rd := range rds {
		rd.Release()
	}
	return true
}
