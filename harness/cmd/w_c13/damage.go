package main

import (
	"bytes"
	"encoding/binary"
	"fmt"
	"os"
	"runtime/debug"
	"strings"

	"github.com/syndtr/goleveldb/leveldb/errors"
	"github.com/syndtr/goleveldb/leveldb/iterator"
	"github.com/syndtr/goleveldb/leveldb/table"
	"github.com/syndtr/goleveldb/leveldb/util"

	"verif/model"
	"verif/wk"
)

// Damage half: one byte of the table image is altered, a fresh reader is opened
// on the altered bytes and a fixed set of queries runs. Verdicts: a yielded pair
// that is not an original pair (unknown key, or a value that does not belong to
// its key), or a panic. Everything else is counted by how the damage surfaced.

type outcome int

const (
	oCorrect   outcome = iota // the same answer as on the unaltered table
	oError                    // an error other than ErrNotFound
	oDifferent                // only original pairs, but not the expected answer
	oNotFound                 // ErrNotFound / nothing although a pair was expected
	oBad                      // invented or misattributed data
	nOutcomes
)

var outcomeName = [...]string{"still-correct", "error", "different-original-pair", "not-found-although-present", "invented-or-misattributed"}

type dquery struct {
	key      []byte
	filtered bool
	exp      int // index of the first pair >= key, len(L) if none
	stored   bool
	withGet  bool
	withFKey bool
}

type move struct {
	op  string
	arg []byte
}

type dwalk struct {
	name  string
	slice *util.Range
	l     []model.KV
	prog  []move
}

type dplan struct {
	queries []dquery
	walks   []dwalk
	valSet  map[string]bool
}

type badInfo struct {
	what string
	w    map[string]interface{}
}

type posResult struct {
	n         [nOutcomes]int // all queries
	walks     [nOutcomes]int // the iterator walks among them
	corrupted int            // errors of the corruption class
	otherErr  int
	openErr   bool
	bad       *badInfo
}

func (p *posResult) total() int {
	t := 0
	for _, x := range p.n {
		t += x
	}
	return t
}

func (tc *tcase) makePlan() *dplan {
	n := len(tc.L)
	pl := &dplan{valSet: map[string]bool{}}
	for _, kv := range tc.L {
		pl.valSet[string(kv.V)] = true
	}
	addQ := func(k []byte) {
		e := tc.expIndex(k)
		pl.queries = append(pl.queries, dquery{key: k, filtered: tc.r.Intn(2) == 0, exp: e,
			stored: e < n && bytes.Equal(tc.L[e].K, k), withGet: tc.r.Intn(2) == 0, withFKey: tc.r.Intn(3) == 0})
	}
	// one stored key per data block (up to 24 blocks), so every block is read
	blocks := tc.r.Perm(len(tc.lay.data))
	if len(blocks) > 24 {
		blocks = blocks[:24]
	}
	for _, bi := range blocks {
		b := tc.lay.data[bi]
		if b.nEntries == 0 || b.first+b.nEntries > n {
			continue
		}
		addQ(tc.L[b.first+tc.r.Intn(b.nEntries)].K)
	}
	for k := 0; k < 6; k++ {
		if n > 0 {
			addQ(tc.mutate(tc.L[tc.r.Intn(n)].K))
		} else {
			addQ(tc.seekTarget())
		}
	}
	if n > 0 {
		addQ(tc.mutate(tc.L[n-1].K))
		addQ(tc.mutate(tc.L[0].K))
	}
	// walks
	fwd := []move{{op: "First"}}
	bwd := []move{{op: "Last"}}
	for j := 0; j < n+1; j++ {
		fwd = append(fwd, move{op: "Next"})
		bwd = append(bwd, move{op: "Prev"})
	}
	pl.walks = append(pl.walks, dwalk{name: "forward pass", l: tc.L, prog: fwd}, dwalk{name: "backward pass", l: tc.L, prog: bwd})
	var sk []move
	for k := 0; k < 3; k++ {
		sk = append(sk, move{op: "Seek", arg: tc.seekTarget()}, move{op: "Next"}, move{op: "Next"}, move{op: "Prev"}, move{op: "Prev"}, move{op: "Prev"})
	}
	pl.walks = append(pl.walks, dwalk{name: "seeks with reversals", l: tc.L, prog: sk})
	sl := tc.randomRange()
	if n == 0 {
		sl = &util.Range{}
	}
	lo, hi := 0, n
	if sl.Start != nil {
		lo = tc.expIndex(sl.Start)
	}
	if sl.Limit != nil {
		hi = tc.expIndex(sl.Limit)
	}
	if hi < lo {
		hi = lo
	}
	rp := []move{{op: "First"}}
	for j := 0; j < hi-lo+1; j++ {
		rp = append(rp, move{op: "Next"})
	}
	rp = append(rp, move{op: "Last"})
	for j := 0; j < hi-lo+1; j++ {
		rp = append(rp, move{op: "Prev"})
	}
	rp = append(rp, move{op: "Seek", arg: tc.seekTarget()}, move{op: "Prev"}, move{op: "Next"})
	pl.walks = append(pl.walks, dwalk{name: "range pass", slice: sl, l: tc.L[lo:hi], prog: rp})
	return pl
}

func (p *posResult) noteErr(err error) {
	p.n[oError]++
	if errors.IsCorrupted(err) {
		p.corrupted++
	} else {
		p.otherErr++
	}
}

func (p *posResult) setBad(what string, w map[string]interface{}) {
	p.n[oBad]++
	if p.bad == nil {
		p.bad = &badInfo{what, w}
	}
}

// original reports whether (k, v) is an original pair; the label says what is wrong otherwise.
func (tc *tcase) original(pl *dplan, k, v []byte, hasV bool) (int, string) {
	j, ok := tc.idx[string(k)]
	if !ok {
		return -1, "invented key"
	}
	if hasV && !bytes.Equal(v, tc.L[j].V) {
		if pl.valSet[string(v)] {
			return j, "misattributed value (belongs to another key)"
		}
		return j, "invented value"
	}
	return j, ""
}

// probeDamaged opens a reader on buf and runs the plan.
func (tc *tcase) probeDamaged(buf []byte, pl *dplan) (res posResult) {
	n := len(tc.L)
	rd, ns, err := tc.open(buf, tc.ro)
	if err != nil || rd == nil {
		res.openErr = true
		if err == nil {
			err = fmt.Errorf("nil reader")
		}
		res.noteErr(err)
		if rd != nil {
			rd.Release()
		}
		return
	}
	defer func() {
		rd.Release()
		if ns != nil {
			tc.cache.EvictNS(ns.NS)
		}
	}()

	judge := func(what string, q *dquery, rkey, val []byte, hasK, hasV bool, err error) {
		switch {
		case err == table.ErrNotFound:
			if q.exp == n || (!q.stored && q.filtered && tc.readerHasFilter && hasK) || (!hasK && !q.stored) {
				res.n[oCorrect]++
			} else {
				res.n[oNotFound]++
			}
		case err != nil:
			res.noteErr(err)
		default:
			k := rkey
			if !hasK {
				k = q.key // Get: the value is attributed to the key asked for
			}
			j, wrong := tc.original(pl, k, val, hasV)
			if wrong != "" {
				res.setBad(wrong, map[string]interface{}{"query": what, "probe_hex": hx(q.key), "filtered": q.filtered,
					"got_key_hex": hx(rkey), "got_value_hex": hx(val)})
				return
			}
			if (hasK && j == q.exp) || (!hasK && q.stored) {
				res.n[oCorrect]++
			} else {
				res.n[oDifferent]++
			}
		}
	}
	for qi := range pl.queries {
		q := &pl.queries[qi]
		rkey, val, err := rd.Find(q.key, q.filtered, nil)
		judge("Find", q, rkey, val, true, true, err)
		if q.withFKey {
			rkey, err := rd.FindKey(q.key, q.filtered, nil)
			judge("FindKey", q, rkey, nil, true, false, err)
		}
		if q.withGet {
			val, err := rd.Get(q.key, nil)
			judge("Get", q, nil, val, false, true, err)
		}
	}
	// OffsetOf has no pairs to judge; it must not crash.
	if n > 0 {
		rd.OffsetOf(tc.L[n/2].K)
	}
	for wi := range pl.walks {
		tc.walkDamaged(rd, pl, &pl.walks[wi], &res)
	}
	return
}

func (tc *tcase) walkDamaged(rd *table.Reader, pl *dplan, w *dwalk, res *posResult) {
	var it iterator.Iterator = rd.NewIterator(w.slice, nil)
	defer it.Release()
	cur := model.NewCursor(w.l, tc.cmp)
	same := true
	for si, m := range w.prog {
		var got, exp bool
		switch m.op {
		case "First":
			got, exp = it.First(), cur.First()
		case "Last":
			got, exp = it.Last(), cur.Last()
		case "Next":
			got, exp = it.Next(), cur.Next()
		case "Prev":
			got, exp = it.Prev(), cur.Prev()
		case "Seek":
			got, exp = it.Seek(m.arg), cur.Seek(m.arg)
		}
		if got != exp {
			same = false
		}
		if it.Valid() {
			k, v := it.Key(), it.Value()
			if _, wrong := tc.original(pl, k, v, true); wrong != "" {
				res.walks[oBad]++
				res.setBad(wrong, map[string]interface{}{"query": w.name, "step": si, "move": m.op, "seek_hex": hx(m.arg),
					"got_key_hex": hx(k), "got_value_hex": hx(v)})
				return
			}
			if !cur.Valid() || !bytes.Equal(k, cur.Key()) || !bytes.Equal(v, cur.Value()) {
				same = false
			}
		} else if cur.Valid() {
			same = false
		}
		if !got && it.Error() != nil {
			break
		}
	}
	switch err := it.Error(); {
	case err != nil:
		res.noteErr(err)
		res.walks[oError]++
	case same:
		res.n[oCorrect]++
		res.walks[oCorrect]++
	default:
		// only original pairs, no error, but not the walk of the unaltered table
		res.n[oDifferent]++
		res.walks[oDifferent]++
	}
}

// positions returns the byte positions to alter.
func (tc *tcase) positions() (ps []int, exhaustive bool) {
	size := len(tc.img)
	if !tc.c.Quick() && size <= 8192 {
		ps = make([]int, size)
		for p := range ps {
			ps[p] = p
		}
		return ps, true
	}
	k := 200
	if !tc.c.Quick() {
		k = 1500
	}
	if k > size {
		k = size
	}
	seen := map[int]bool{}
	add := func(p int) {
		if !seen[p] {
			seen[p] = true
			ps = append(ps, p)
		}
	}
	// a few positions from every region class present, then a uniform sample
	byClass := map[string][]region{}
	var classes []string
	for _, rg := range tc.lay.regions {
		cl := coarse(rg.name)
		if _, ok := byClass[cl]; !ok {
			classes = append(classes, cl)
		}
		byClass[cl] = append(byClass[cl], rg)
	}
	for _, cl := range classes {
		rgs := byClass[cl]
		for t := 0; t < 6; t++ {
			rg := rgs[tc.r.Intn(len(rgs))]
			add(rg.lo + tc.r.Intn(rg.hi-rg.lo))
		}
	}
	for tries := 0; len(ps) < k && tries < 4*k; tries++ {
		add(tc.r.Intn(size))
	}
	return ps, false
}

func (tc *tcase) damageHalf() {
	pl := tc.makePlan()
	buf := append([]byte{}, tc.img...)

	// The plan on the unaltered image must give the expected answers everywhere.
	base := tc.probeDamaged(buf, pl)
	if base.n[oCorrect] != base.total() || base.bad != nil {
		tc.fail("roundtrip:plan-on-unaltered-table", "the damage-half query plan does not give the expected answers on the unaltered table",
			map[string]interface{}{"outcomes": fmt.Sprint(base.n), "bad": base.bad})
		return
	}
	tc.c.Max("damage_queries_per_altered_byte", int64(base.total()))
	ps, exhaustive := tc.positions()
	tc.count("damage_tables", 1)
	if exhaustive {
		tc.count("damage_tables_every_position", 1)
	}
	mode := fmt.Sprint(tc.desc["reader_strict"])
	tc.count("damage_tables:reader_strict="+mode, 1)

	for _, p := range ps {
		var x byte
		if tc.r.Intn(2) == 0 {
			x = 1 << uint(tc.r.Intn(8))
		} else {
			x = byte(1 + tc.r.Intn(255))
		}
		rg := tc.lay.regionAt(p)
		cl := coarse(rg.name)
		// The footer is not inside a checksummed block: outside the statement's
		// premise. It is exercised and counted, but gives no verdicts.
		inPremise := cl != "footer" && cl != "gap"
		if tc.c.Extra == "footer-only" && inPremise {
			continue // diagnostic mode: same alterations (the PRNG stream is unchanged), footer positions only
		}
		buf[p] ^= x
		if !inPremise && tc.footerHandleTooLarge(buf) {
			// an altered footer handle that asks the reader for a huge buffer is not
			// exercised (it could exhaust memory, which no recover() can catch)
			buf[p] ^= x
			tc.count("damage_footer_skipped:handle_length_over_64MiB", 1)
			continue
		}
		var res posResult
		var pstack, pval string
		func() {
			defer func() {
				if r := recover(); r != nil {
					pval, pstack = fmt.Sprint(r), string(debug.Stack())
				}
			}()
			res = tc.probeDamaged(buf, pl)
		}()
		buf[p] ^= x
		tc.c.Evals(1)
		tc.count("damage_positions", 1)
		tc.count("damage_pos:"+cl, 1)
		if rg.name != cl {
			tc.count("damage_pos_detail:"+rg.name, 1)
		}
		where := map[string]interface{}{"position": p, "xor": x, "region": rg.name, "data_block": rg.block, "table_bytes": len(tc.img)}
		if pstack != "" {
			if !inPremise {
				tc.count("damage_footer_outside_premise:panic", 1)
				tc.c.Distinct("footer_panic_sites", wk.PanicSite(pstack))
				fmt.Fprintf(os.Stderr, "C13 note (no verdict, footer is outside every checksummed block): case=%d position=%d (%s, footer offset %d) xor=%#x table_bytes=%d: recovered %q at %s\n",
					tc.i, p, rg.name, p-(len(tc.img)-footerLen), x, len(tc.img), pval, wk.PanicSite(pstack))
				continue
			}
			where["panic"], where["stack"] = pval, strings.Split(pstack, "\n")
			tc.fail("panic:damaged-read:"+wk.PanicSite(pstack), fmt.Sprintf("panic while reading a table with one altered byte (%s, position %d): %s", rg.name, p, pval), where)
			tc.count("damage_surfaced:"+cl+":panic", 1)
			continue
		}
		for o := outcome(0); o < nOutcomes; o++ {
			tc.count("damage_queries:"+outcomeName[o], int64(res.n[o]))
			if res.n[o]-res.walks[o] != 0 {
				tc.count("damage_lookups:strict="+mode+":"+outcomeName[o], int64(res.n[o]-res.walks[o]))
			}
			if res.walks[o] != 0 {
				tc.count("damage_walks:strict="+mode+":"+outcomeName[o], int64(res.walks[o]))
			}
		}
		tc.count("damage_errors:corruption-class", int64(res.corrupted))
		tc.count("damage_errors:other-class", int64(res.otherErr))
		how := ""
		switch {
		case res.bad != nil:
			how = "invented-or-misattributed"
		case res.n[oDifferent] > 0:
			how = "different-original-pair"
		case res.n[oNotFound] > 0:
			how = "not-found-although-present"
		case res.openErr || res.n[oError] == res.total():
			how = "every-query-errored"
		case res.n[oError] > 0:
			how = "some-queries-errored"
		default:
			how = "all-answers-still-correct"
		}
		tc.count("damage_surfaced:"+cl+":"+how, 1)
		if res.bad != nil {
			if !inPremise {
				tc.count("damage_footer_outside_premise:invented-or-misattributed", 1)
				fmt.Fprintf(os.Stderr, "C13 note (no verdict, footer is outside every checksummed block): case=%d position=%d (%s, footer offset %d) xor=%#x table_bytes=%d: %s %v\n",
					tc.i, p, rg.name, p-(len(tc.img)-footerLen), x, len(tc.img), res.bad.what, res.bad.w)
				continue
			}
			for k, v := range res.bad.w {
				where[k] = v
			}
			sig := "damage:invented"
			if strings.HasPrefix(res.bad.what, "misattributed") {
				sig = "damage:misattributed"
			}
			tc.fail(sig, fmt.Sprintf("one altered byte (%s, position %d, xor %#x): a read returned an %s without an error", rg.name, p, x, res.bad.what), where)
		}
	}
}

// footerHandleTooLarge decodes the two footer handles of buf the way the reader does.
func (tc *tcase) footerHandleTooLarge(buf []byte) bool {
	if len(buf) < footerLen {
		return false
	}
	foot := buf[len(buf)-footerLen:]
	pos := 0
	for h := 0; h < 2; h++ {
		_, n := binary.Uvarint(foot[pos:])
		if n <= 0 {
			return false
		}
		l, m := binary.Uvarint(foot[pos+n:])
		if m <= 0 {
			return false
		}
		if l > 64<<20 {
			return true
		}
		pos += n + m
	}
	return false
}
