package main

import (
	"bytes"
	"encoding/binary"
	"fmt"
	"math/rand"
	"sort"

	"github.com/syndtr/goleveldb/leveldb"
	"github.com/syndtr/goleveldb/leveldb/comparer"

	"verif/model"
)

// Key-set shapes. The list is part of the case description.
var shapes = []string{
	"hostile", "hostile", "hostile", "longprefix", "longprefix", "dense", "binary8", "bigkeys", "ffruns",
}

// genUserKeys returns n (or fewer, after de-duplication) distinct raw keys of the given shape, unsorted.
func genUserKeys(r *rand.Rand, shape string, n int) [][]byte {
	if n <= 0 {
		return nil
	}
	seen := map[string]bool{}
	var out [][]byte
	add := func(k []byte) {
		if !seen[string(k)] {
			seen[string(k)] = true
			out = append(out, append([]byte{}, k...))
		}
	}
	switch shape {
	case "hostile":
		g := model.NewKeyGen(r, n)
		p := g.Pool
		r.Shuffle(len(p), func(i, j int) { p[i], p[j] = p[j], p[i] })
		if len(p) > n {
			p = p[:n]
		}
		for _, k := range p {
			add(k)
		}
	case "longprefix":
		// One to three long prefixes, short distinguishing tails: shared-prefix
		// compression and separator shortening work on the tails only.
		np := 1 + r.Intn(3)
		var prefixes [][]byte
		for i := 0; i < np; i++ {
			l := 16 + r.Intn(120)
			if r.Intn(5) == 0 {
				l = 200 + r.Intn(400)
			}
			p := make([]byte, l)
			al := []byte("ab")
			if r.Intn(3) == 0 {
				al = []byte{0, 0xff}
			}
			for j := range p {
				p[j] = al[r.Intn(len(al))]
			}
			prefixes = append(prefixes, p)
		}
		for tries := 0; len(out) < n && tries < 20*n+100; tries++ {
			p := prefixes[r.Intn(len(prefixes))]
			var tail []byte
			switch r.Intn(4) {
			case 0:
				tail = []byte(fmt.Sprintf("%06d", r.Intn(4*n+10)))
			case 1:
				tail = make([]byte, 1+r.Intn(3))
				for j := range tail {
					tail[j] = byte(r.Intn(256))
				}
			case 2:
				tail = nil // the prefix itself
			default:
				tail = make([]byte, 1+r.Intn(6))
				for j := range tail {
					tail[j] = "xyz"[r.Intn(3)]
				}
			}
			add(append(append([]byte{}, p...), tail...))
		}
	case "dense":
		x := r.Intn(1000)
		for len(out) < n {
			add([]byte(fmt.Sprintf("k%07d", x)))
			x += 1 + r.Intn(3)*r.Intn(2)
		}
	case "binary8":
		rng := 4*n + 16
		for tries := 0; len(out) < n && tries < 20*n+100; tries++ {
			k := make([]byte, 8)
			binary.BigEndian.PutUint64(k, uint64(r.Intn(rng)))
			add(k)
		}
	case "bigkeys":
		// Keys larger than a block.
		pl := 40 + r.Intn(200)
		p := make([]byte, pl)
		for j := range p {
			p[j] = "pq"[r.Intn(2)]
		}
		for tries := 0; len(out) < n && tries < 20*n+100; tries++ {
			l := 1 + r.Intn(900)
			if r.Intn(4) == 0 {
				l = 1000 + r.Intn(4000)
			}
			t := make([]byte, l)
			for j := range t {
				t[j] = "abc"[r.Intn(3)]
			}
			add(append(append([]byte{}, p...), t...))
		}
	case "ffruns":
		// 0xff / 0x00 runs: the carry cases of Separator/Successor.
		for tries := 0; len(out) < n && tries < 20*n+100; tries++ {
			l := r.Intn(7)
			k := make([]byte, l)
			for j := range k {
				switch r.Intn(4) {
				case 0:
					k[j] = 0
				case 1:
					k[j] = 0xfe
				default:
					k[j] = 0xff
				}
			}
			if r.Intn(3) == 0 {
				k = append(k, byte(r.Intn(256)))
			}
			add(k)
		}
	default:
		panic("unknown shape " + shape)
	}
	return out
}

// valueSizeFor draws a value size for one entry.
func valueSizeFor(r *rand.Rand, mode string, blockSize, n int) int {
	switch mode {
	case "empty":
		return 0
	case "small":
		return 12 + r.Intn(12)
	case "big":
		return blockSize + r.Intn(blockSize+1)
	}
	// mixed
	x := r.Intn(1000)
	switch {
	case x < 80:
		return 0
	case x < 120:
		return 1 + r.Intn(11) // shorter than the id: not unique
	case x < 700:
		return 12 + r.Intn(40)
	case x < 900:
		return 12 + r.Intn(300)
	}
	// entries larger than a block; rarer in large tables to bound their size
	if n > 400 && x < 990 {
		return 12 + r.Intn(60)
	}
	if x < 985 {
		return blockSize + r.Intn(blockSize+1)
	}
	return 12 + r.Intn(3*blockSize+1)
}

// keySet is the sorted input of one table.
type keySet struct {
	L         []model.KV
	UserKeys  int
	MultiVers int // user keys stored in more than one version (internal comparer only)
}

// makeRawSet builds a strictly increasing (under cmp) list of raw keys with values.
func makeRawSet(r *rand.Rand, cmp comparer.Comparer, shape, vmode string, n, blockSize int, caseIdx int) keySet {
	ks := genUserKeys(r, shape, n)
	sort.Slice(ks, func(i, j int) bool { return cmp.Compare(ks[i], ks[j]) < 0 })
	l := make([]model.KV, 0, len(ks))
	for i, k := range ks {
		l = append(l, model.KV{K: k, V: model.Value(uint32(caseIdx), uint32(i), 0, valueSizeFor(r, vmode, blockSize, n))})
	}
	return keySet{L: l, UserKeys: len(ks)}
}

const maxSeq = uint64(leveldb.VerifKeyMaxSeq)

func drawSeq(r *rand.Rand) uint64 {
	switch r.Intn(10) {
	case 0:
		return 0
	case 1:
		return maxSeq
	case 2:
		return maxSeq - uint64(r.Intn(300))
	case 3, 4:
		return uint64(r.Intn(8))
	case 5:
		return uint64(r.Int63n(1 << 40))
	default:
		return uint64(r.Intn(5000))
	}
}

// makeInternalSet builds internal keys: n entries over user keys of the shape,
// several versions of the same user key with descending sequence numbers.
func makeInternalSet(r *rand.Rand, ucmp, icmp comparer.Comparer, shape, vmode string, n, blockSize int, caseIdx int, manyVersions bool) keySet {
	if n == 0 {
		return keySet{}
	}
	nuk := n
	if manyVersions {
		nuk = 1 + n/(2+r.Intn(20))
	} else {
		nuk = 1 + n*2/3
	}
	uks := genUserKeys(r, shape, nuk)
	var iks [][]byte
	multi := 0
	remaining := n
	for ui, uk := range uks {
		if remaining <= 0 {
			uks = uks[:ui]
			break
		}
		nv := 1
		if manyVersions {
			nv = 1 + r.Intn(2*n/len(uks)+2)
		} else {
			switch x := r.Intn(100); {
			case x < 55:
				nv = 1
			case x < 80:
				nv = 2
			default:
				nv = 3 + r.Intn(3)
			}
		}
		if ui == len(uks)-1 && remaining > nv {
			nv = remaining // use up the budget on the last user key
			if nv > 60 {
				nv = 60
			}
		}
		if nv > remaining {
			nv = remaining
		}
		seqs := map[uint64]bool{}
		// consecutive runs are what a DB produces; mixed with wild numbers
		base := drawSeq(r)
		for tries := 0; len(seqs) < nv && tries < 10*nv+20; tries++ {
			var s uint64
			if r.Intn(3) > 0 && base >= uint64(len(seqs)) {
				s = base - uint64(len(seqs))
			} else {
				s = drawSeq(r)
			}
			seqs[s] = true
		}
		if len(seqs) > 1 {
			multi++
		}
		for s := range seqs {
			iks = append(iks, leveldb.VerifMakeInternalKey(uk, s, 0))
			remaining--
		}
	}
	// Map iteration order above is random; (user key, seq) pairs are distinct, so
	// the sort below makes the list deterministic. Kinds are drawn after sorting.
	sort.Slice(iks, func(i, j int) bool { return icmp.Compare(iks[i], iks[j]) < 0 })
	l := make([]model.KV, 0, len(iks))
	for i, ik := range iks {
		uk, seq, _, _ := leveldb.VerifParseInternalKey(ik)
		ik = leveldb.VerifMakeInternalKey(uk, seq, uint(r.Intn(2)))
		l = append(l, model.KV{K: ik, V: model.Value(uint32(caseIdx), uint32(i), 0, valueSizeFor(r, vmode, blockSize, n))})
	}
	return keySet{L: l, UserKeys: len(uks), MultiVers: multi}
}

// strictlyIncreasing verifies the generator's own output (harness self-check).
func strictlyIncreasing(cmp comparer.Comparer, l []model.KV) bool {
	for i := 1; i < len(l); i++ {
		if cmp.Compare(l[i-1].K, l[i].K) >= 0 {
			return false
		}
	}
	return true
}

// mutateRaw returns a key close to k (usually not stored).
func mutateRaw(r *rand.Rand, k []byte) []byte {
	p := append([]byte{}, k...)
	switch r.Intn(8) {
	case 0:
		return append(p, 0)
	case 1:
		return append(p, 0xff)
	case 2:
		if len(p) > 0 {
			return p[:len(p)-1]
		}
		return []byte{0}
	case 3:
		if len(p) > 0 {
			p[len(p)-1]--
			return p
		}
		return []byte{0xff}
	case 4:
		if len(p) > 0 {
			p[len(p)-1]++
			return p
		}
		return []byte{1}
	case 5:
		if len(p) > 0 {
			p[len(p)-1]--
			return append(p, 0xff, 0xff)
		}
		return []byte{0, 0}
	case 6:
		if len(p) > 1 {
			i := r.Intn(len(p))
			p[i] ^= byte(1 << uint(r.Intn(8)))
			return p
		}
		return append(p, 'm')
	default:
		return append(p, byte(r.Intn(256)), byte(r.Intn(256)))
	}
}

// mutateInternal returns an internal key close to ik: same or neighbouring user
// key, neighbouring / extreme sequence number.
func mutateInternal(r *rand.Rand, ik []byte) []byte {
	uk, seq, kt, err := leveldb.VerifParseInternalKey(ik)
	if err != nil {
		panic("harness: bad internal key")
	}
	nuk := uk
	if r.Intn(3) == 0 {
		nuk = mutateRaw(r, uk)
	}
	ns := seq
	switch r.Intn(7) {
	case 0:
		if seq < maxSeq {
			ns = seq + 1
		}
	case 1:
		if seq > 0 {
			ns = seq - 1
		}
	case 2:
		ns = maxSeq
	case 3:
		ns = 0
	case 4:
		ns = drawSeq(r)
	default:
		// same sequence, maybe other kind
	}
	nkt := kt
	if r.Intn(2) == 0 {
		nkt = uint(r.Intn(2))
	}
	p := leveldb.VerifMakeInternalKey(nuk, ns, nkt)
	if bytes.Equal(p, ik) {
		// make it differ: the seek key of the same user key (newest possible)
		p = leveldb.VerifMakeInternalKey(nuk, maxSeq, 1)
	}
	return p
}

func mkIK(uk []byte, seq uint64, kt uint) []byte { return leveldb.VerifMakeInternalKey(uk, seq, kt) }

func parseIK(ik []byte) (uk []byte, seq uint64, kt uint, err error) {
	return leveldb.VerifParseInternalKey(ik)
}
