// Worker for C13: sorted tables round-trip under all layouts and detect block damage.
//
// One case = one table: a strictly increasing (under the comparer in use) list of
// pairs, one option set, written by table.Writer into a byte buffer and read back
// by table.Reader. Every case runs the round-trip half (lookups, iteration under
// the cursor model, offsets); every third case additionally runs the damage half
// (one altered byte per trial, a fresh reader per trial).
package main

import (
	"bytes"
	"encoding/hex"
	"fmt"
	"math/rand"

	"github.com/syndtr/goleveldb/leveldb"
	"github.com/syndtr/goleveldb/leveldb/cache"
	"github.com/syndtr/goleveldb/leveldb/comparer"
	"github.com/syndtr/goleveldb/leveldb/filter"
	"github.com/syndtr/goleveldb/leveldb/opt"
	"github.com/syndtr/goleveldb/leveldb/storage"
	"github.com/syndtr/goleveldb/leveldb/table"
	"github.com/syndtr/goleveldb/leveldb/util"

	"verif/model"
	"verif/wk"
)

func main() { wk.Main("C13", run) }

func run(c *wk.Ctx) {
	ncases := c.Pick(3600, 24000)
	for i := 0; i < ncases; i++ {
		if !c.Mine(i) {
			continue
		}
		runCase(c, i)
	}
}

// memFile is the in-memory storage.Reader handed to table.NewReader.
type memFile struct {
	*bytes.Reader
	closed int
}

func (m *memFile) Close() error { m.closed++; return nil }

var _ storage.Reader = (*memFile)(nil)

type tcase struct {
	c *wk.Ctx
	i int
	r *rand.Rand

	internal bool
	ucmp     comparer.Comparer
	cmp      comparer.Comparer
	shape    string
	vmode    string
	ks       keySet
	L        []model.KV
	idx      map[string]int // key -> position in L

	wo, ro          *opt.Options
	readerHasFilter bool
	blockSize       int
	restart         int
	desc            map[string]interface{}

	cache  *cache.Cache
	bpool  *util.BufferPool
	nsNext uint64

	img    []byte
	lay    *layout
	probes [][]byte // probes used by the lookup half, reused for offsets and seeks

	st     map[string]int64
	failed map[string]bool
	damage bool
}

func (tc *tcase) count(k string, n int64) { tc.st[k] += n }

// fail reports a violation once per signature and case.
func (tc *tcase) fail(sig, msg string, extra map[string]interface{}) {
	if tc.failed[sig] {
		return
	}
	tc.failed[sig] = true
	w := map[string]interface{}{
		"case": tc.i, "options": tc.desc, "entries": len(tc.L),
	}
	if len(tc.L) <= 48 {
		var ks, vs []string
		for _, kv := range tc.L {
			ks = append(ks, hex.EncodeToString(kv.K))
			vs = append(vs, hex.EncodeToString(kv.V))
		}
		w["keys_hex"], w["values_hex"] = ks, vs
	}
	if tc.img != nil && len(tc.img) <= 8192 {
		w["table_hex"] = hex.EncodeToString(tc.img)
	}
	for k, v := range extra {
		w[k] = v
	}
	tc.c.Violation(tc.i, sig, msg, w)
}

func hx(b []byte) string {
	if b == nil {
		return "<nil>"
	}
	if len(b) > 96 {
		return hex.EncodeToString(b[:96]) + fmt.Sprintf("...(%d bytes)", len(b))
	}
	return hex.EncodeToString(b)
}

func pickInt(r *rand.Rand, xs ...int) int { return xs[r.Intn(len(xs))] }

// setup draws the comparer, the key set and the option set of case i.
func setup(c *wk.Ctx, i int) *tcase {
	r := c.Rand(i)
	tc := &tcase{c: c, i: i, r: r, st: map[string]int64{}, failed: map[string]bool{}, desc: map[string]interface{}{}}
	tc.damage = i%3 == 0

	// comparer
	tc.ucmp = comparer.DefaultComparer
	if r.Intn(5) == 0 {
		tc.ucmp = model.Comparers[r.Intn(len(model.Comparers))]
	}
	tc.internal = r.Intn(2) == 0
	tc.cmp = tc.ucmp
	if tc.internal {
		tc.cmp = leveldb.VerifInternalComparer(tc.ucmp)
	}
	tc.desc["comparer"] = tc.ucmp.Name()
	tc.desc["internal_keys"] = tc.internal

	// options
	tc.blockSize = pickInt(r, 64, 256, 1<<10, 4<<10)
	tc.restart = pickInt(r, 1, 2, 16)
	wo := &opt.Options{Comparer: tc.cmp, BlockSize: tc.blockSize, BlockRestartInterval: tc.restart}
	if r.Intn(2) == 0 {
		wo.Compression = opt.NoCompression
		tc.desc["compression"] = "none"
	} else {
		wo.Compression = opt.SnappyCompression
		tc.desc["compression"] = "snappy"
	}
	wo.FilterBaseLg = pickInt(r, 5, 8, 11)
	tc.desc["block_size"], tc.desc["restart_interval"], tc.desc["filter_base_lg"] = tc.blockSize, tc.restart, wo.FilterBaseLg
	ro := *wo
	if r.Intn(100) < 35 {
		tc.desc["filter"] = "nil"
	} else {
		bits := pickInt(r, 1, 4, 10, 16)
		wo.Filter = filter.NewBloomFilter(bits)
		tc.desc["filter"] = fmt.Sprintf("bloom%d", bits)
		// Raw filter semantics on both sides: the writer adds the table keys as
		// they are (internal keys included, suffix and all) and the reader probes
		// with the lookup key as it is.
		switch x := r.Intn(10); {
		case x < 7:
			ro.Filter = wo.Filter
			tc.readerHasFilter = true
			tc.desc["reader_filter"] = "same"
		case x < 8:
			ro.Filter = filter.NewBloomFilter(pickInt(r, 1, 4, 10, 16))
			tc.readerHasFilter = true
			tc.desc["reader_filter"] = "bloom, other bits-per-key"
		case x < 9:
			ro.AltFilters = []filter.Filter{wo.Filter}
			tc.readerHasFilter = true
			tc.desc["reader_filter"] = "alt"
		default:
			tc.desc["reader_filter"] = "none"
		}
	}
	if tc.damage {
		// Damage half: block checksums are verified. Three quarters of the tables
		// use the default strict flags, the rest verifies checksums but lets
		// iterators skip a corrupted data block (StrictReader off).
		if r.Intn(4) == 0 {
			ro.Strict = opt.StrictBlockChecksum
			tc.desc["reader_strict"] = "checksum-only"
		} else {
			tc.desc["reader_strict"] = "default"
		}
	} else {
		switch r.Intn(4) {
		case 0:
			ro.Strict = opt.NoStrict
			tc.desc["reader_strict"] = "none"
		case 1:
			ro.Strict = opt.StrictAll
			tc.desc["reader_strict"] = "all"
		default:
			tc.desc["reader_strict"] = "default"
		}
	}
	tc.wo, tc.ro = wo, &ro

	switch x := r.Intn(10); {
	case x < 4:
		tc.desc["block_cache"] = "off"
	default:
		capa := pickInt(r, 1, 4<<10, 64<<10, 8<<20)
		tc.cache = cache.NewCache(cache.NewLRU(capa))
		tc.desc["block_cache"] = capa
	}
	if r.Intn(2) == 0 {
		tc.bpool = util.NewBufferPool(tc.blockSize + 5)
		tc.desc["buffer_pool"] = true
	} else {
		tc.desc["buffer_pool"] = false
	}

	// key set
	var n int
	if tc.damage {
		switch x := r.Intn(100); {
		case x < 3:
			n = 0
		case x < 8:
			n = 1
		case x < 30:
			n = 2 + r.Intn(12)
		case x < 85:
			n = 10 + r.Intn(150)
		default:
			n = 150 + r.Intn(600)
		}
	} else {
		switch x := r.Intn(100); {
		case x < 3:
			n = 0
		case x < 7:
			n = 1
		case x < 25:
			n = 2 + r.Intn(20)
		case x < 65:
			n = 20 + r.Intn(380)
		case x < 88:
			n = 400 + r.Intn(800)
		default:
			n = 1200 + r.Intn(1801)
		}
	}
	tc.shape = shapes[r.Intn(len(shapes))]
	if tc.shape == "bigkeys" && n > 300 {
		n = 20 + n%280
	}
	switch x := r.Intn(100); {
	case x < 70:
		tc.vmode = "mixed"
	case x < 80:
		tc.vmode = "empty"
	case x < 92:
		tc.vmode = "small"
	default:
		tc.vmode = "big"
		if n > 300 {
			n = 20 + n%280
		}
	}
	many := false
	if tc.internal {
		many = r.Intn(4) == 0
		tc.ks = makeInternalSet(r, tc.ucmp, tc.cmp, tc.shape, tc.vmode, n, tc.blockSize, i, many)
	} else {
		tc.ks = makeRawSet(r, tc.cmp, tc.shape, tc.vmode, n, tc.blockSize, i)
	}
	tc.L = tc.ks.L
	tc.idx = make(map[string]int, len(tc.L))
	for j, kv := range tc.L {
		tc.idx[string(kv.K)] = j
	}
	tc.desc["shape"], tc.desc["values"], tc.desc["many_versions"] = tc.shape, tc.vmode, many
	return tc
}

func (tc *tcase) newNS() *cache.NamespaceGetter {
	if tc.cache == nil {
		return nil
	}
	tc.nsNext++
	return &cache.NamespaceGetter{Cache: tc.cache, NS: tc.nsNext}
}

// open creates a reader over img. The reader owns f.
func (tc *tcase) open(img []byte, o *opt.Options) (*table.Reader, *cache.NamespaceGetter, error) {
	ns := tc.newNS()
	f := &memFile{Reader: bytes.NewReader(img)}
	rd, err := table.NewReader(f, int64(len(img)), storage.FileDesc{Type: storage.TypeTable, Num: int64(tc.i)}, ns, tc.bpool, o)
	return rd, ns, err
}

func (tc *tcase) observeEmptyInternal() {
	defer func() {
		if x := recover(); x != nil {
			tc.count("observed:empty_table_close_panics_with_internal_comparer", 1)
		}
	}()
	var buf bytes.Buffer
	w := table.NewWriter(&buf, tc.wo, nil, 0)
	if err := w.Close(); err == nil {
		tc.count("observed:empty_table_close_ok_with_internal_comparer", 1)
	}
}

func runCase(c *wk.Ctx, i int) {
	tc := setup(c, i)
	c.Begin(i, fmt.Sprintf("n=%d %v", len(tc.L), tc.desc))
	defer func() {
		for k, v := range tc.st {
			c.Count(k, v)
		}
		if tc.cache != nil {
			tc.cache.Close(true)
		}
	}()
	if tc.internal && len(tc.L) == 0 {
		// Observed on the unchanged tree: Writer.Close of a table without entries
		// hands the empty key to Comparer.Successor, which the internal-key
		// comparer does not accept (it panics). The DB never writes an empty
		// table and the empty key is outside that comparer's domain, so this is
		// recorded as an observation, not a verdict; the empty table is then
		// exercised under the raw comparer.
		tc.observeEmptyInternal()
		tc.internal = false
		tc.cmp = tc.ucmp
		tc.wo.Comparer, tc.ro.Comparer = tc.ucmp, tc.ucmp
		tc.desc["internal_keys"] = false
	}
	if !strictlyIncreasing(tc.cmp, tc.L) {
		c.Inconclusive("harness-generated-unsorted-input")
		return
	}
	c.Eval()
	tc.count("tables", 1)
	tc.count("entries", int64(len(tc.L)))
	tc.count("shape:"+tc.shape, 1)
	tc.count("values:"+tc.vmode, 1)
	ck := "raw"
	if tc.internal {
		ck = "internal"
		tc.count("internal_user_keys_with_several_versions", int64(tc.ks.MultiVers))
	}
	tc.count("comparer:"+ck+"/"+tc.ucmp.Name(), 1)
	tc.count(fmt.Sprintf("opt:block_size=%d", tc.blockSize), 1)
	tc.count(fmt.Sprintf("opt:restart_interval=%d", tc.restart), 1)
	tc.count(fmt.Sprintf("opt:compression=%v", tc.desc["compression"]), 1)
	tc.count(fmt.Sprintf("opt:filter=%v", tc.desc["filter"]), 1)
	if tc.wo.Filter != nil {
		tc.count(fmt.Sprintf("opt:filter_base_lg=%d", tc.wo.FilterBaseLg), 1)
	}
	tc.count(fmt.Sprintf("opt:block_cache=%v", tc.cache != nil), 1)
	tc.count(fmt.Sprintf("opt:buffer_pool=%v", tc.bpool != nil), 1)
	c.Distinct("option_cells", fmt.Sprintf("%d/%d/%v/%v/%d/%v/%v/%s", tc.blockSize, tc.restart, tc.desc["compression"],
		tc.wo.Filter != nil, tc.wo.FilterBaseLg, tc.cache != nil, tc.bpool != nil, ck))
	switch len(tc.L) {
	case 0:
		tc.count("tables_empty", 1)
	case 1:
		tc.count("tables_single_entry", 1)
	}

	ok := false
	if c.Guard(i, "round-trip", func() { ok = tc.roundTrip() }) {
		return
	}
	if !ok || len(tc.failed) > 0 {
		return
	}
	nblocks := 0
	if tc.lay != nil {
		nblocks = len(tc.lay.data)
	}
	if tc.damage && tc.lay != nil {
		tc.damageHalf()
	}
	if len(tc.failed) == 0 && len(tc.L) >= 2 && nblocks >= 2 {
		c.Nontrivial(fmt.Sprintf("case-%d", i))
	}
	if c.WantSample() && len(tc.L) > 0 {
		s := map[string]interface{}{"case": i, "options": tc.desc, "entries": len(tc.L), "table_bytes": len(tc.img),
			"data_blocks": nblocks, "first_key_hex": hx(tc.L[0].K), "last_key_hex": hx(tc.L[len(tc.L)-1].K)}
		st := map[string]int64{}
		for k, v := range tc.st {
			st[k] = v
		}
		s["observed"] = st
		c.Sample(s)
	}
}
