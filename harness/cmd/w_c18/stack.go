package main

import "runtime"

func runtimeStack(buf []byte) int { return runtime.Stack(buf, false) }
