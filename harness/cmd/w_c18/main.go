// Worker for C18: ownership and lifecycle: one owner, read-only means read-only,
// closed is closed.
package main

import (
	"bytes"
	"fmt"
	"math/rand"
	"os"
	"os/exec"
	"strings"
	"sync"
	"sync/atomic"
	"time"

	"github.com/syndtr/goleveldb/leveldb"
	"github.com/syndtr/goleveldb/leveldb/iterator"
	"github.com/syndtr/goleveldb/leveldb/opt"
	"github.com/syndtr/goleveldb/leveldb/storage"
	"github.com/syndtr/goleveldb/leveldb/util"

	"verif/dbx"
	"verif/hang"
	"verif/model"
	"verif/vstor"
	"verif/wk"
)

func main() {
	// child mode: try to open a file DB that the parent holds open
	if len(os.Args) >= 3 && os.Args[1] == "child-open" {
		stor, err := storage.OpenFile(os.Args[2], false)
		if err != nil {
			fmt.Println("child: OpenFile failed:", err)
			os.Exit(7)
		}
		db, err := leveldb.Open(stor, nil)
		if err != nil {
			stor.Close()
			fmt.Println("child: Open failed:", err)
			os.Exit(7)
		}
		db.Close()
		stor.Close()
		fmt.Println("child: opened")
		os.Exit(0)
	}
	wk.Main("C18", run)
}

func run(c *wk.Ctx) {
	n := c.Pick(10000, 60000)
	if c.Race {
		n = c.Pick(60, 300)
	}
	for i := 0; i < n; i++ {
		if !c.Mine(i) {
			continue
		}
		switch i % 5 {
		case 0:
			ownership(c, i)
		case 1:
			readOnlyOpen(c, i)
		case 2:
			setReadOnly(c, i)
		case 3:
			afterClose(c, i)
		default:
			racingClose(c, i)
		}
		c.Eval()
	}
}

func smallOptions(r *rand.Rand) model.OptSet {
	os := model.RandomOptions(r, model.OptConstraints{})
	os.O.WriteBuffer = []int{1 << 10, 4 << 10, 16 << 10}[r.Intn(3)]
	// reads racing Close with a 1-4 entry open-files cache used to end in C09's finding F10 (fixed in 10db0f9):
	// the small capacities of the matrix are used again
	os.Desc["WriteBuffer"] = os.O.WriteBuffer
	return os
}

// ---- family 0: one owner at a time

func ownership(c *wk.Ctx, i int) {
	r := c.Rand(i)
	c.Begin(i, "ownership")
	st := vstor.New(false)
	db, err := leveldb.Open(st, nil)
	if err != nil {
		c.Violation(i, "open-failed", err.Error(), nil)
		return
	}
	for k := 0; k < 20; k++ {
		db.Put([]byte(fmt.Sprintf("k%d", k)), []byte("v"), nil)
	}
	for k := 0; k < 3; k++ {
		ro := r.Intn(2) == 0
		db2, err := leveldb.Open(st, &opt.Options{ReadOnly: ro})
		c.Count("second_open_attempts_on_an_owned_storage", 1)
		if err == nil {
			c.Violation(i, "two-owners", fmt.Sprintf("a second Open (read-only=%v) succeeded on a storage that is owned by an open DB", ro), nil)
			db2.Close()
			db.Close()
			return
		}
	}
	if !st.IsLocked() {
		c.Violation(i, "lock-lost", "the storage lock was released by a failed second Open", nil)
	}
	db.Close()
	if st.IsLocked() {
		c.Violation(i, "still-locked-after-close", "the storage is still locked after Close returned", nil)
		return
	}
	db3, err := leveldb.Open(st, nil)
	if err != nil {
		c.Violation(i, "not-available-after-close", "Open after Close failed: "+err.Error(), nil)
		return
	}
	db3.Close()
	if n, first := st.UnownedOps(); n > 0 {
		c.Violation(i, "storage-used-without-owning-it", fmt.Sprintf("%d storage operations were performed while the storage lock was not held, first: %s", n, first), nil)
		return
	}
	// the real file storage, in-process and from a second process
	if i%25 == 0 {
		dir, err := os.MkdirTemp("", "verif-c18-")
		if err != nil {
			return
		}
		defer os.RemoveAll(dir)
		fdb, err := leveldb.OpenFile(dir, nil)
		if err != nil {
			c.Violation(i, "open-failed", "OpenFile: "+err.Error(), nil)
			return
		}
		fdb.Put([]byte("a"), []byte("b"), nil)
		if d2, err := leveldb.OpenFile(dir, nil); err == nil {
			c.Violation(i, "two-owners", "a second OpenFile on the same directory succeeded in-process", nil)
			d2.Close()
		}
		out, cerr := exec.Command(os.Args[0], "child-open", dir).CombinedOutput()
		c.Count("child_process_open_attempts", 1)
		if cerr == nil {
			c.Violation(i, "two-owners", "a second process opened the directory while it was owned: "+string(out), nil)
		}
		fdb.Close()
		out, cerr = exec.Command(os.Args[0], "child-open", dir).CombinedOutput()
		if cerr != nil {
			c.Violation(i, "not-available-after-close", "a second process could not open the directory after Close: "+string(out), nil)
		}
		c.Count("file_storage_ownership_cases", 1)
	}
	c.Nontrivial(fmt.Sprintf("case-%d", i))
}

// buildHistory runs a program and closes the DB in one of several states.
func buildHistory(c *wk.Ctx, i int, r *rand.Rand, os model.OptSet) (*dbx.Runner, string, error) {
	ru, err := dbx.NewRunner(r, os, 40+r.Intn(300), false)
	if err != nil {
		return nil, "", err
	}
	ru.NoReopen = true
	kind := []string{"journal-only", "tables", "mid-compaction", "two-journals", "open-transaction", "tables+journal"}[r.Intn(6)]
	nops := 30 + r.Intn(600)
	if kind == "journal-only" {
		ru.OS.O.WriteBuffer = 4 << 20
		nops = 5 + r.Intn(60)
		ru.NoCompact = true
		// reopen with a large buffer so nothing is flushed
		ru.DB.Close()
		o := ru.OS.Clone()
		db, err := leveldb.Open(ru.Stor, o)
		if err != nil {
			return nil, "", err
		}
		ru.DB = db
	}
	for n := 0; n < nops; n++ {
		if err := ru.Step(); err != nil {
			return nil, "", err
		}
	}
	switch kind {
	case "tables":
		ru.DB.CompactRange(util.Range{})
		leveldb.VerifBarrier(ru.DB)
	case "mid-compaction", "two-journals":
		// hold the next table creation (a flush or a compaction) and close while it is held
		g := ru.Stor.AddGate(vstor.OpCreate, storage.TypeTable)
		// A helper writes until the table creation (a flush or a compaction) is held at the gate. Its
		// writes may block behind the held flush and then fail with the closed error although they were
		// applied, so they go to reserved keys whose fate the caller treats as unknown.
		stopW := make(chan struct{})
		wdone := make(chan struct{})
		db := ru.DB
		go func() {
			defer close(wdone)
			for n := 0; ; n++ {
				select {
				case <-stopW:
					return
				default:
				}
				k := []byte(fmt.Sprintf("~reserved/%d", n%7))
				if err := db.Put(k, model.Value(0, uint32(n), 7, 100), nil); err != nil {
					return
				}
			}
		}()
		select {
		case <-g.Arrived():
		case <-time.After(20 * time.Second):
			close(stopW)
			g.Release()
			<-wdone
			return nil, "", fmt.Errorf("harness: no table creation reached the gate")
		}
		if kind == "mid-compaction" {
			close(stopW)
		}
		// for "two-journals" the helper keeps writing into the new journal until Close stops it
		done := make(chan error, 1)
		go func() { done <- ru.DB.Close() }()
		time.Sleep(2 * time.Millisecond)
		g.Release()
		ru.Stor.ReleaseGates()
		cdone := make(chan struct{})
		go func() { <-done; close(cdone) }()
		if why, _ := waitStable(cdone); why == "inconclusive" {
			return nil, "", fmt.Errorf("harness: inconclusive wait for Close")
		} else if why != "" {
			return nil, "", fmt.Errorf("Close did not return while a table creation was held and then released: %s", why)
		}
		if kind != "mid-compaction" {
			close(stopW)
		}
		<-wdone
		ru.DB = nil
	case "open-transaction":
		tr, err := ru.DB.OpenTransaction()
		if err == nil {
			for j := 0; j < 50; j++ {
				tr.Put(ru.Keys.Pick(r), []byte("never-visible"), nil)
			}
		}
	}
	if ru.DB != nil {
		if err := ru.DB.Close(); err != nil {
			return nil, "", err
		}
		ru.DB = nil
	}
	return ru, kind, nil
}

// ---- family 1: read-only open

func readOnlyOpen(c *wk.Ctx, i int) {
	r := c.Rand(i)
	os := smallOptions(r)
	c.Begin(i, fmt.Sprintf("read-only open opts=%v", os.Desc))
	var ru *dbx.Runner
	var kind string
	var err error
	if c.Guard(i, "history", func() { ru, kind, err = buildHistory(c, i, r, os) }) {
		return
	}
	if err != nil {
		if strings.HasPrefix(err.Error(), "harness:") {
			c.Inconclusive(err.Error())
			return
		}
		c.Violation(i, "history-failed", err.Error(), map[string]interface{}{"options": os.Desc})
		return
	}
	st := ru.Stor
	nj := 0
	for _, f := range st.Files() {
		if f.Fd.Type == storage.TypeJournal {
			nj++
		}
	}
	c.Count("ro_history:"+kind, 1)
	c.Count(fmt.Sprintf("ro_open_with_%d_journals", nj), 1)
	before := st.Files()
	st.Freeze()
	o := ru.OS.Clone()
	o.ReadOnly = true
	var db *leveldb.DB
	if c.Guard(i, "read-only Open", func() { db, err = leveldb.Open(st, o) }) {
		return
	}
	wit := map[string]interface{}{"options": os.Desc, "history": kind, "journals": nj}
	if err != nil {
		c.Violation(i, "read-only-open-failed", fmt.Sprintf("read-only Open failed on a cleanly closed DB (%s, %d journals): %v", kind, nj, err), wit)
		return
	}
	bad := false
	c.Guard(i, "read-only use", func() {
		// serves all previously written data, including data still only in the journal
		// (keys under "~reserved/" were written by the gate helper and have an unknown fate)
		for _, k := range ru.Keys.Pool {
			want, live := ru.M.Get(k)
			got, err := db.Get(k, nil)
			if live && (err != nil || !bytes.Equal(got, want)) || !live && err != leveldb.ErrNotFound {
				c.Violation(i, "read-only-content", fmt.Sprintf("read-only DB (%s): Get(%x) = %x,%v want %x live=%v", kind, k, got, err, want, live), wit)
				bad = true
				return
			}
		}
		it := db.NewIterator(nil, nil)
		var seen []model.KV
		for it.Next() {
			if bytes.HasPrefix(it.Key(), []byte("~reserved/")) {
				continue
			}
			seen = append(seen, model.KV{K: append([]byte{}, it.Key()...), V: append([]byte{}, it.Value()...)})
		}
		ierr := it.Error()
		it.Release()
		want := ru.M.Range(nil, nil)
		if ierr != nil || len(seen) != len(want) {
			c.Violation(i, "read-only-content", fmt.Sprintf("read-only DB iteration: %d pairs (error %v), model has %d", len(seen), ierr, len(want)), wit)
			bad = true
			return
		}
		for j := range want {
			if !bytes.Equal(seen[j].K, want[j].K) || !bytes.Equal(seen[j].V, want[j].V) {
				c.Violation(i, "read-only-content", fmt.Sprintf("read-only DB iteration: pair %d is %x, model says %x", j, seen[j].K, want[j].K), wit)
				bad = true
				return
			}
		}
		// rejects writes with the read-only error
		for name, f := range map[string]func() error{
			"Put":    func() error { return db.Put([]byte("x"), []byte("y"), nil) },
			"Delete": func() error { return db.Delete([]byte("x"), nil) },
			"Write": func() error {
				b := new(leveldb.Batch)
				b.Put([]byte("x"), []byte("y"))
				return db.Write(b, nil)
			},
			"OpenTransaction": func() error { _, err := db.OpenTransaction(); return err },
			"CompactRange":    func() error { return db.CompactRange(util.Range{}) },
		} {
			if err := f(); err != leveldb.ErrReadOnly {
				c.Violation(i, "read-only-accepts-write", fmt.Sprintf("%s on a read-only DB returned %v, want the read-only error", name, err), wit)
				bad = true
				return
			}
			c.Count("ro_write_attempts_rejected", 1)
		}
		for n := 0; n < 200; n++ {
			db.Get(ru.Keys.Pick(r), nil)
		}
	})
	c.Guard(i, "Close of a read-only DB", func() { db.Close() })
	st.Unfreeze()
	if bad {
		return
	}
	if s := st.Sentinels(); len(s) > 0 {
		wit["mutating_operation"] = s[0].Op.String()
		wit["stack"] = strings.Split(s[0].Stack, "\n")
		c.Violation(i, "read-only-mutated-storage:"+s[0].Op.Kind.String(), fmt.Sprintf("a DB opened read-only performed %d mutating storage operations, first: %s", len(s), s[0].Op), wit)
		return
	}
	after := st.Files()
	if fmt.Sprint(before) != fmt.Sprint(after) {
		c.Violation(i, "read-only-mutated-storage:files", fmt.Sprintf("file listing changed under a read-only DB: %v -> %v", before, after), wit)
		return
	}
	c.Count("ro_opens_checked", 1)
	c.Nontrivial(fmt.Sprintf("case-%d", i))
	if c.WantSample() {
		c.Sample(map[string]interface{}{"case": i, "family": "read-only open", "history": kind, "journals": nj, "files": len(before)})
	}
}

// ---- family 2: switched to read-only in the middle of a write stream

func setReadOnly(c *wk.Ctx, i int) {
	r := c.Rand(i)
	os := smallOptions(r)
	c.Begin(i, fmt.Sprintf("SetReadOnly opts=%v", os.Desc))
	ru, err := dbx.NewRunner(r, os, 40+r.Intn(300), false)
	if err != nil {
		c.Violation(i, "open-failed", err.Error(), nil)
		return
	}
	ru.NoReopen = true
	wit := map[string]interface{}{"options": os.Desc}
	bad := false
	c.Guard(i, "SetReadOnly case", func() {
		for n := 0; n < 100+r.Intn(800); n++ {
			if err := ru.Step(); err != nil {
				c.Violation(i, "program-failed", err.Error(), wit)
				bad = true
				return
			}
		}
		if err := ru.DB.SetReadOnly(); err != nil {
			c.Violation(i, "setreadonly-failed", err.Error(), wit)
			bad = true
			return
		}
		// writes are rejected
		if err := ru.DB.Put([]byte("x"), []byte("y"), nil); err != leveldb.ErrReadOnly {
			c.Violation(i, "read-only-accepts-write", fmt.Sprintf("Put after SetReadOnly returned %v", err), wit)
			bad = true
			return
		}
		// in-flight background work drains: wait (in rounds of reads) until three consecutive rounds saw no mutating operation
		mut := func() int64 {
			var n int64
			for _, k := range []vstor.OpKind{vstor.OpCreate, vstor.OpWrite, vstor.OpSync, vstor.OpRemove, vstor.OpRename, vstor.OpSetMeta} {
				n += ru.Stor.Count(k, 0)
			}
			return n
		}
		// "Drained" is decided by looking at the background goroutines, not by a clock: both compaction
		// goroutines must be parked in their idle select (innermost goleveldb frame = the loop itself) in
		// two consecutive looks with no mutating operation in between.
		idle := func() bool {
			_, gs := hang.Dump()
			n := 0
			for _, g := range gs {
				for fi, f := range g.Frames {
					if strings.HasSuffix(f, "leveldb.(*DB).tCompaction") || strings.HasSuffix(f, "leveldb.(*DB).mCompaction") {
						n++
						// any goleveldb frame deeper than the loop means work in progress
						for _, d := range g.Frames[:fi] {
							if strings.Contains(d, "goleveldb/") {
								return false
							}
						}
						if g.State != "select" {
							return false
						}
					}
				}
			}
			return n >= 2
		}
		quiet, last := 0, mut()
		for round := 0; round < 2000 && quiet < 2; round++ {
			for n := 0; n < 50; n++ {
				ru.DB.Get(ru.Keys.Pick(r), nil)
			}
			// the round trip through the reference loop lets it process every release made so far
			// (obsolete tables are removed there, possibly on behalf of the read that just returned)
			leveldb.VerifFileRefs(ru.DB)
			if m := mut(); idle() && m == last {
				quiet++
			} else {
				quiet, last = 0, mut()
				time.Sleep(200 * time.Microsecond)
			}
		}
		if quiet < 2 {
			c.Inconclusive("background work did not drain")
			bad = true
			return
		}
		ru.Stor.Freeze()
		// a quiet period measured in operations: reads (which may sample seeks) and iterators
		for n := 0; n < 600; n++ {
			k := ru.Keys.Pick(r)
			want, live := ru.M.Get(k)
			got, err := ru.DB.Get(k, nil)
			if live && (err != nil || !bytes.Equal(got, want)) || !live && err != leveldb.ErrNotFound {
				c.Violation(i, "read-only-content", fmt.Sprintf("after SetReadOnly: Get(%x) = %x,%v want %x live=%v", k, got, err, want, live), wit)
				bad = true
				return
			}
		}
		it := ru.DB.NewIterator(nil, nil)
		for it.Next() {
		}
		it.Release()
		time.Sleep(5 * time.Millisecond)
		ru.Stor.Unfreeze()
		if s := ru.Stor.Sentinels(); len(s) > 0 {
			wit["mutating_operation"] = s[0].Op.String()
			wit["stack"] = strings.Split(s[0].Stack, "\n")
			c.Violation(i, "read-only-mutated-storage-after-drain:"+s[0].Op.Kind.String(), fmt.Sprintf("after SetReadOnly and a drained background, %d mutating storage operations happened during 600 reads and one scan, first: %s", len(s), s[0].Op), wit)
			bad = true
		}
	})
	c.Guard(i, "Close", func() { ru.Close() })
	if !bad {
		c.Count("setreadonly_cases_checked", 1)
		c.Nontrivial(fmt.Sprintf("case-%d", i))
	}
}

// ---- family 3: after Close every method returns the closed error, touches nothing

type call struct {
	name string
	f    func() error
	want []error
	msgs []string
}

func afterClose(c *wk.Ctx, i int) {
	r := c.Rand(i)
	os := smallOptions(r)
	c.Begin(i, fmt.Sprintf("after Close opts=%v", os.Desc))
	ru, err := dbx.NewRunner(r, os, 40+r.Intn(200), false)
	if err != nil {
		c.Violation(i, "open-failed", err.Error(), nil)
		return
	}
	ru.NoReopen = true
	wit := map[string]interface{}{"options": os.Desc}
	var (
		snap, snapRel *leveldb.Snapshot
		tr            *leveldb.Transaction
		itRel         iterator.Iterator
		db            = ru.DB
	)
	if c.Guard(i, "prepare", func() {
		for n := 0; n < 50+r.Intn(400); n++ {
			if err := ru.Step(); err != nil {
				c.Violation(i, "program-failed", err.Error(), wit)
				return
			}
		}
		snap, _ = db.GetSnapshot()
		snapRel, _ = db.GetSnapshot()
		itRel = db.NewIterator(nil, nil)
		itRel.Next()
		// released handles report their own errors
		snapRel.Release()
		if _, err := snapRel.Get([]byte("a"), nil); err != leveldb.ErrSnapshotReleased {
			c.Violation(i, "released-handle", fmt.Sprintf("Get on a released snapshot returned %v", err), wit)
		}
		if _, err := snapRel.Has([]byte("a"), nil); err != leveldb.ErrSnapshotReleased {
			c.Violation(i, "released-handle", fmt.Sprintf("Has on a released snapshot returned %v", err), wit)
		}
		if it := snapRel.NewIterator(nil, nil); it.Next() || it.Error() != leveldb.ErrSnapshotReleased {
			c.Violation(i, "released-handle", fmt.Sprintf("iterator of a released snapshot: error %v", it.Error()), wit)
		}
		snapRel.Release()
		itRel.Release()
		if itRel.Next() || itRel.Valid() || itRel.Error() != leveldb.ErrIterReleased {
			c.Violation(i, "released-handle", fmt.Sprintf("Next on a released iterator: valid=%v error=%v", itRel.Valid(), itRel.Error()), wit)
		}
		itRel.Release()
		c.Count("released_handle_checks", 5)
		if r.Intn(2) == 0 {
			tr, _ = db.OpenTransaction()
			if tr != nil {
				tr.Put([]byte("t"), []byte("v"), nil)
			}
		}
		if err := db.Close(); err != nil {
			c.Violation(i, "close-error", err.Error(), wit)
		}
	}) {
		return
	}
	st := ru.Stor
	t0 := st.Touches()
	closed := []error{leveldb.ErrClosed}
	calls := []call{
		{"DB.Get", func() error { _, e := db.Get([]byte("a"), nil); return e }, closed, nil},
		{"DB.Has", func() error { _, e := db.Has([]byte("a"), nil); return e }, closed, nil},
		{"DB.Put", func() error { return db.Put([]byte("a"), []byte("b"), nil) }, closed, nil},
		{"DB.Delete", func() error { return db.Delete([]byte("a"), nil) }, closed, nil},
		{"DB.Write", func() error { b := new(leveldb.Batch); b.Put([]byte("a"), []byte("b")); return db.Write(b, nil) }, closed, nil},
		{"DB.Write(oversized)", func() error {
			b := new(leveldb.Batch)
			b.Put([]byte("a"), make([]byte, os.O.GetWriteBuffer()+100))
			return db.Write(b, nil)
		}, closed, nil},
		{"DB.NewIterator", func() error {
			it := db.NewIterator(nil, nil)
			defer it.Release()
			if it.Next() || it.First() || it.Valid() {
				return fmt.Errorf("iterator of a closed DB yields data")
			}
			return it.Error()
		}, closed, nil},
		{"DB.GetSnapshot", func() error { _, e := db.GetSnapshot(); return e }, closed, nil},
		{"DB.GetProperty", func() error { _, e := db.GetProperty("leveldb.stats"); return e }, closed, nil},
		{"DB.Stats", func() error { return db.Stats(&leveldb.DBStats{}) }, closed, nil},
		{"DB.SizeOf", func() error { _, e := db.SizeOf([]util.Range{{}}); return e }, closed, nil},
		{"DB.CompactRange", func() error { return db.CompactRange(util.Range{}) }, closed, nil},
		{"DB.SetReadOnly", func() error { return db.SetReadOnly() }, closed, nil},
		{"DB.OpenTransaction", func() error { _, e := db.OpenTransaction(); return e }, closed, nil},
		{"DB.Close(second)", func() error { return db.Close() }, closed, nil},
		{"Snapshot.Get", func() error { _, e := snap.Get([]byte("a"), nil); return e }, []error{leveldb.ErrClosed, leveldb.ErrSnapshotReleased}, nil},
		{"Snapshot.Has", func() error { _, e := snap.Has([]byte("a"), nil); return e }, []error{leveldb.ErrClosed, leveldb.ErrSnapshotReleased}, nil},
		{"Snapshot.NewIterator", func() error {
			it := snap.NewIterator(nil, nil)
			defer it.Release()
			if it.Next() {
				return fmt.Errorf("snapshot iterator of a closed DB yields data")
			}
			return it.Error()
		}, []error{leveldb.ErrClosed, leveldb.ErrSnapshotReleased}, nil},
		{"Snapshot.Release", func() error { snap.Release(); snap.Release(); return leveldb.ErrClosed }, closed, nil},
	}
	if tr != nil {
		done := []string{"leveldb: transaction already closed"}
		calls = append(calls,
			call{"Transaction.Get", func() error { _, e := tr.Get([]byte("a"), nil); return e }, closed, done},
			call{"Transaction.Has", func() error { _, e := tr.Has([]byte("a"), nil); return e }, closed, done},
			call{"Transaction.Put", func() error { return tr.Put([]byte("a"), []byte("b"), nil) }, closed, done},
			call{"Transaction.Delete", func() error { return tr.Delete([]byte("a"), nil) }, closed, done},
			call{"Transaction.Write", func() error { b := new(leveldb.Batch); b.Put([]byte("a"), []byte("b")); return tr.Write(b, nil) }, closed, done},
			call{"Transaction.Commit", func() error { return tr.Commit() }, closed, done},
			call{"Transaction.NewIterator", func() error {
				it := tr.NewIterator(nil, nil)
				defer it.Release()
				if it.Next() {
					return fmt.Errorf("transaction iterator of a closed DB yields data")
				}
				return it.Error()
			}, closed, done},
			call{"Transaction.Discard", func() error { tr.Discard(); tr.Discard(); return leveldb.ErrClosed }, closed, nil},
		)
	}
	r.Shuffle(len(calls), func(a, b int) { calls[a], calls[b] = calls[b], calls[a] })
	bad := false
	for _, cl := range calls {
		var got error
		donech := make(chan struct{})
		var panicked bool
		go func() {
			defer close(donech)
			panicked = c.Guard(i, "after-close:"+cl.name, func() { got = cl.f() })
		}()
		if why, vd := waitStable(donech); why == "inconclusive" {
			c.Inconclusive("slow call after Close, no stable blocked state")
			return
		} else if why != "" {
			wit["verdict"] = vd
			c.Violation(i, "hang-after-close:"+cl.name, cl.name+" on a closed DB never returns: "+why, wit)
			return
		}
		if panicked {
			bad = true
			continue
		}
		ok := false
		for _, w := range cl.want {
			if got == w {
				ok = true
			}
		}
		for _, m := range cl.msgs {
			if got != nil && got.Error() == m {
				ok = true
			}
		}
		if !ok {
			c.Violation(i, "not-closed-error:"+cl.name, fmt.Sprintf("%s after Close returned %v, want a closed/released error", cl.name, got), wit)
			bad = true
		}
		c.Count("methods_called_after_close", 1)
		c.Distinct("methods_after_close", cl.name)
	}
	if t1 := st.Touches(); t1 != t0 {
		c.Violation(i, "storage-touched-after-close", fmt.Sprintf("%d storage operations were performed by calls made after Close returned", t1-t0), wit)
		bad = true
	}
	if st.IsLocked() {
		c.Violation(i, "still-locked-after-close", "the storage is still locked after Close", wit)
		bad = true
	}
	if n, first := st.UnownedOps(); n > 0 {
		c.Violation(i, "storage-used-without-owning-it", fmt.Sprintf("%d storage operations were performed while the storage lock was not held (Close released the lock before it was done with the files), first: %s", n, first), wit)
		bad = true
	}
	if !bad {
		c.Nontrivial(fmt.Sprintf("case-%d", i))
	}
}

// ---- family 4: calls racing with Close

func racingClose(c *wk.Ctx, i int) {
	r := c.Rand(i)
	os := smallOptions(r)
	c.Begin(i, fmt.Sprintf("racing Close opts=%v", os.Desc))
	ru, err := dbx.NewRunner(r, os, 40+r.Intn(200), false)
	if err != nil {
		c.Violation(i, "open-failed", err.Error(), nil)
		return
	}
	ru.NoReopen = true
	wit := map[string]interface{}{"options": os.Desc}
	for n := 0; n < 50+r.Intn(500); n++ {
		if err := ru.Step(); err != nil {
			c.Violation(i, "program-failed", err.Error(), wit)
			return
		}
	}
	db := ru.DB
	closedClass := func(err error) bool {
		if err == nil || err == leveldb.ErrNotFound || err == leveldb.ErrClosed || err == leveldb.ErrSnapshotReleased || err == leveldb.ErrIterReleased {
			return true
		}
		s := err.Error()
		return s == "leveldb/table: reader released" || s == "leveldb: transaction already closed"
	}
	var wg sync.WaitGroup
	var stop, bad int32
	var after int64 // set when Close has returned
	ng := 4 + r.Intn(5)
	storm := -1 // in a quarter of the cases every goroutine hammers one method while Close runs
	if r.Intn(4) == 0 {
		storm = r.Intn(9)
	}
	var lastCall sync.Map
	for g := 0; g < ng; g++ {
		rr := rand.New(rand.NewSource(r.Int63()))
		g := g
		wg.Add(1)
		go func() {
			defer wg.Done()
			gid := hang.GoID()
			_ = gid
			for atomic.LoadInt32(&stop) == 0 {
				var name string
				var err error
				k := ru.Keys.Pick(rr)
				wasAfter := atomic.LoadInt64(&after) != 0
				func() {
					defer func() {
						if x := recover(); x != nil {
							if atomic.CompareAndSwapInt32(&bad, 0, 1) {
								stk := hangStack()
								c.Violation(i, "panic-racing-close:"+name+":"+wk.PanicSite(stk), fmt.Sprintf("%s racing with Close panicked: %v", name, x), map[string]interface{}{"options": os.Desc, "stack": strings.Split(stk, "\n")})
							}
						}
					}()
					pick := rr.Intn(9)
					if storm >= 0 {
						pick = storm
					}
					switch pick {
					case 0:
						name = "Get"
						lastCall.Store(g, name)
						var v []byte
						v, err = db.Get(k, nil)
						if err == nil {
							if want, live := ru.M.Get(k); !live || !bytes.Equal(v, want) {
								err = fmt.Errorf("wrong value")
							}
						}
					case 1:
						name = "Has"
						lastCall.Store(g, name)
						_, err = db.Has(k, nil)
					case 2:
						name = "Put(same value)"
						lastCall.Store(g, name)
						if want, live := ru.M.Get(k); live {
							err = db.Put(k, want, nil)
						}
					case 3:
						name = "GetSnapshot+Get"
						lastCall.Store(g, name)
						var s *leveldb.Snapshot
						if s, err = db.GetSnapshot(); err == nil {
							_, err = s.Get(k, nil)
							s.Release()
						}
					case 4:
						name = "GetProperty"
						lastCall.Store(g, name)
						_, err = db.GetProperty("leveldb.sstables")
					case 5:
						name = "Stats"
						lastCall.Store(g, name)
						err = db.Stats(&leveldb.DBStats{})
					case 6:
						name = "SizeOf"
						lastCall.Store(g, name)
						_, err = db.SizeOf([]util.Range{{Start: nil, Limit: k}})
					case 7:
						name = "OpenTransaction"
						lastCall.Store(g, name)
						var tr *leveldb.Transaction
						if tr, err = db.OpenTransaction(); err == nil {
							tr.Discard()
						}
					default:
						name = "CompactRange"
						lastCall.Store(g, name)
						err = db.CompactRange(util.Range{Start: k, Limit: k})
					}
				}()
				c.Count("racing_calls", 1)
				if !closedClass(err) {
					if atomic.CompareAndSwapInt32(&bad, 0, 1) {
						c.Violation(i, "racing-close-result:"+name, fmt.Sprintf("%s racing with Close returned %v (neither a correct result nor a closed-class error)", name, err), wit)
					}
				}
				if wasAfter && err != leveldb.ErrClosed && err != nil && name != "Put(same value)" || wasAfter && err == nil && name != "Put(same value)" {
					// invoked after Close returned: exactly the closed error
					if atomic.CompareAndSwapInt32(&bad, 0, 1) {
						c.Violation(i, "not-closed-error:"+name, fmt.Sprintf("%s invoked after Close had returned gave %v", name, err), wit)
					}
				}
				if err == leveldb.ErrClosed {
					c.Count("racing_calls_that_saw_closed", 1)
					time.Sleep(50 * time.Microsecond)
				}
			}
		}()
	}
	time.Sleep(time.Duration(200+r.Intn(3000)) * time.Microsecond)
	cdone := make(chan struct{})
	go func() { db.Close(); atomic.StoreInt64(&after, 1); close(cdone) }()
	if why, vd := waitStable(cdone); why == "inconclusive" {
		c.Inconclusive("slow Close while racing, no stable blocked state")
		atomic.StoreInt32(&stop, 1)
		return
	} else if why != "" {
		wit["verdict"] = vd
		c.Violation(i, "close-hang-while-racing", fmt.Sprintf("Close racing with %d callers never returns: %s", ng, why), wit)
		atomic.StoreInt32(&stop, 1)
		return
	}
	time.Sleep(300 * time.Microsecond)
	atomic.StoreInt32(&stop, 1)
	wdone := make(chan struct{})
	go func() { wg.Wait(); close(wdone) }()
	if why, vd := waitStable(wdone); why == "inconclusive" {
		c.Inconclusive("slow calls racing Close, no stable blocked state")
		return
	} else if why != "" {
		var names []string
		lastCall.Range(func(k, v interface{}) bool { names = append(names, v.(string)); return true })
		wit["verdict"] = vd
		c.Violation(i, "call-hang-while-racing-close", fmt.Sprintf("calls racing with Close never return (last calls: %v): %s", names, why), wit)
		return
	}
	c.Count("racing_close_cases", 1)
	if atomic.LoadInt32(&bad) == 0 {
		c.Nontrivial(fmt.Sprintf("case-%d", i))
	}
}

func inDBCall(g hang.G) bool {
	js := strings.Join(g.Frames, " ")
	return strings.Contains(js, "main.") && strings.Contains(js, "goleveldb/leveldb.")
}

// waitStable waits for ch; the generous first wait only starts inspections (two goroutine dumps);
// it returns "" when ch fired, "inconclusive" when no stable blocked state was found, or a
// description of the parked frame.
func waitStable(ch <-chan struct{}) (string, *hang.Verdict) {
	ok, vd := hang.WaitOrInspect(ch, 60*time.Second, 4*time.Second, 15, func() int64 { return 0 }, inDBCall)
	switch {
	case ok:
		return "", nil
	case vd == nil:
		return "inconclusive", nil
	}
	return fmt.Sprintf("parked in %s [%s]; other blocked goleveldb goroutines: %v", vd.Parked, vd.ParkedIn, vd.Others), vd
}

func hangStack() string {
	buf := make([]byte, 1<<16)
	n := runtimeStack(buf)
	return string(buf[:n])
}
