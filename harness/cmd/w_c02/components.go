package main

// Component level of C02: the same cursor-model walk, driven directly over the component
// constructors the statement names as observation points (iterator.NewMergedIterator,
// iterator.NewIndexedIterator), arranged the way the DB arranges them: a k-way merge whose
// children are array iterators (the buffers, level-0 tables) and indexed iterators (one
// concatenating iterator per deeper level) whose data iterators are range-sliced at the edges
// and may therefore be empty there.

import (
	"fmt"
	"math/rand"
	"sort"

	"github.com/syndtr/goleveldb/leveldb/comparer"
	"github.com/syndtr/goleveldb/leveldb/iterator"

	"verif/dbx"
	"verif/model"
	"verif/wk"
)

type kvArray struct {
	cmp comparer.Comparer
	kvs []model.KV
}

func (a *kvArray) Len() int { return len(a.kvs) }
func (a *kvArray) Search(key []byte) int {
	return sort.Search(len(a.kvs), func(i int) bool { return a.cmp.Compare(a.kvs[i].K, key) >= 0 })
}
func (a *kvArray) Index(i int) (key, value []byte) { return a.kvs[i].K, a.kvs[i].V }

// chunkIndex is an ArrayIndexer: one index key per chunk (>= every key of the chunk, < every key of
// the next one), Get returns the chunk's data iterator.
type chunkIndex struct {
	cmp    comparer.Comparer
	keys   [][]byte
	chunks [][]model.KV
	gets   *int64
}

func (x *chunkIndex) Len() int { return len(x.keys) }
func (x *chunkIndex) Search(key []byte) int {
	return sort.Search(len(x.keys), func(i int) bool { return x.cmp.Compare(x.keys[i], key) >= 0 })
}
func (x *chunkIndex) Get(i int) iterator.Iterator {
	*x.gets++
	return iterator.NewArrayIterator(&kvArray{x.cmp, x.chunks[i]})
}

func inRange(cmp comparer.Comparer, k, start, limit []byte) bool {
	return (start == nil || cmp.Compare(k, start) >= 0) && (limit == nil || cmp.Compare(k, limit) < 0)
}

// newLevel builds an indexed iterator over list cut into contiguous chunks and sliced to [start, limit)
// the way table.Reader / tFilesArrayIndexer do it: only chunks that may hold keys of the range are
// indexed, and every data iterator is restricted to the range (edge chunks may come out empty).
func newLevel(r *rand.Rand, cmp comparer.Comparer, kg *model.KeyGen, list []model.KV, start, limit []byte, gets *int64, emptyEdges *int64) iterator.Iterator {
	var chunks [][]model.KV
	for i := 0; i < len(list); {
		n := 1 + r.Intn(6)
		if r.Intn(5) == 0 {
			n = 1 + r.Intn(40)
		}
		if i+n > len(list) {
			n = len(list) - i
		}
		chunks = append(chunks, list[i:i+n])
		i += n
	}
	keys := make([][]byte, len(chunks))
	for j, ch := range chunks {
		last := ch[len(ch)-1].K
		keys[j] = last
		// sometimes a separator strictly between this chunk and the next, as index-key shortening produces
		for try := 0; try < 3 && r.Intn(2) == 0; try++ {
			s := kg.Probe(r)
			if cmp.Compare(last, s) <= 0 && (j+1 == len(chunks) || cmp.Compare(s, chunks[j+1][0].K) < 0) {
				keys[j] = s
				break
			}
		}
	}
	x := &chunkIndex{cmp: cmp, gets: gets}
	for j, ch := range chunks {
		if start != nil && cmp.Compare(keys[j], start) < 0 {
			continue // wholly before the range
		}
		if limit != nil && j > 0 && cmp.Compare(keys[j-1], limit) >= 0 {
			continue // wholly at or after the limit
		}
		var sl []model.KV
		for _, kv := range ch {
			if inRange(cmp, kv.K, start, limit) {
				sl = append(sl, kv)
			}
		}
		if len(sl) == 0 {
			*emptyEdges++
		}
		x.keys = append(x.keys, keys[j])
		x.chunks = append(x.chunks, sl)
	}
	return iterator.NewIndexedIterator(iterator.NewArrayIndexer(x), true)
}

func componentCase(c *wk.Ctx, i int) {
	r := c.Rand(i)
	cmps := []comparer.Comparer{comparer.DefaultComparer, model.Reverse{}, model.Shortlex{}}
	cmp := cmps[r.Intn(len(cmps))]
	kg := model.NewKeyGen(r, 20+r.Intn(400))
	c.Begin(i, fmt.Sprintf("component case comparer=%s pool=%d", cmp.Name(), len(kg.Pool)))
	// the full sorted list of distinct keys
	m := model.NewMap(cmp)
	for j, k := range kg.Pool {
		if r.Intn(5) != 0 {
			m.Put(k, model.Value(9, uint32(j), 0, r.Intn(40)))
		}
	}
	full := m.Range(nil, nil)
	failed := false
	c.Guard(i, "C02 component case", func() {
		for round := 0; round < 12 && !failed; round++ {
			var start, limit []byte
			if r.Intn(3) != 0 {
				a, b := kg.Probe(r), kg.Probe(r)
				if r.Intn(2) == 0 {
					a = kg.Pick(r)
				}
				if r.Intn(2) == 0 {
					b = kg.Pick(r)
				}
				if cmp.Compare(a, b) > 0 {
					a, b = b, a
				}
				switch r.Intn(4) {
				case 0:
					start = a
				case 1:
					limit = b
				default:
					start, limit = a, b
				}
			}
			// distribute the keys over the children (distinct keys: internal keys are unique in the DB)
			nch := 1 + r.Intn(7)
			parts := make([][]model.KV, nch)
			for _, kv := range full {
				ch := r.Intn(nch)
				if r.Intn(3) == 0 {
					ch = 0 // one child much bigger than the others
				}
				parts[ch] = append(parts[ch], kv)
			}
			var gets, emptyEdges int64
			var kids []iterator.Iterator
			kinds := ""
			for _, p := range parts {
				if r.Intn(2) == 0 && len(p) > 0 {
					kids = append(kids, newLevel(r, cmp, kg, p, start, limit, &gets, &emptyEdges))
					kinds += "I"
				} else {
					var sl []model.KV
					for _, kv := range p {
						if inRange(cmp, kv.K, start, limit) {
							sl = append(sl, kv)
						}
					}
					kids = append(kids, iterator.NewArrayIterator(&kvArray{cmp, sl}))
					kinds += "A"
				}
			}
			var it iterator.Iterator
			what := "merged(" + kinds + ")"
			if nch == 1 && kinds == "I" {
				it = kids[0]
				what = "indexed"
			} else {
				it = iterator.NewMergedIterator(kids, cmp, true)
			}
			var want []model.KV
			for _, kv := range full {
				if inRange(cmp, kv.K, start, limit) {
					want = append(want, kv)
				}
			}
			ws := &dbx.WalkStats{}
			seek := func() []byte {
				if r.Intn(2) == 0 {
					return kg.Probe(r)
				}
				return kg.Pick(r)
			}
			var mm *dbx.WalkMismatch
			if r.Intn(6) == 0 {
				mm = dbx.FullScan(it, want)
			}
			if mm == nil {
				mm = dbx.Walk(r, it, want, cmp, seek, 50+r.Intn(350), ws)
			}
			it.Release()
			c.Count("component_iterators", 1)
			if what == "indexed" {
				c.Count("component:indexed_alone", 1)
			} else {
				c.Count("component:merged", 1)
			}
			c.Count("component_reversals", int64(ws.Reversals))
			c.Count("component_data_iterators_opened", gets)
			c.Count("component_empty_edge_chunks", emptyEdges)
			c.Count("component_stepped_off_an_end", int64(ws.OffEnds))
			if mm != nil {
				failed = true
				c.Violation(i, "iterator-mismatch:component", what+": "+mm.Error(), map[string]interface{}{
					"component": what, "comparer": cmp.Name(), "start": dbx.Hex(start), "limit": dbx.Hex(limit), "mismatch": mm, "list_len": len(want)})
				return
			}
			if ws.Reversals > 0 && len(want) >= 2 {
				c.Nontrivial(fmt.Sprintf("comp%d-r%d", i, round))
			}
		}
	})
	c.Eval()
}
