// Worker for C02: iterators enumerate exactly the live pairs of their view, in order,
// for any sequence of First/Last/Seek/Next/Prev (cursor model K).
package main

import (
	"fmt"
	"math/rand"

	"github.com/syndtr/goleveldb/leveldb"
	"github.com/syndtr/goleveldb/leveldb/iterator"
	"github.com/syndtr/goleveldb/leveldb/opt"
	"github.com/syndtr/goleveldb/leveldb/util"

	"verif/dbx"
	"verif/model"
	"verif/wk"
)

func main() { wk.Main("C02", run) }

type view struct {
	name string
	m    *model.Map
	newI func(*util.Range) iterator.Iterator
}

func run(c *wk.Ctx) {
	ncases := c.Pick(320, 5000)
	for i := 0; i < ncases; i++ {
		if c.Mine(i) {
			runCase(c, i)
		}
	}
	// component level: merged / indexed iterators arranged as the DB arranges them
	ncomp := c.Pick(400, 6000)
	for i := 0; i < ncomp; i++ {
		if c.Mine(1000000 + i) {
			componentCase(c, 1000000+i)
		}
	}
}

func runCase(c *wk.Ctx, i int) {
	r := c.Rand(i)
	os := model.RandomOptions(r, model.OptConstraints{NonInjective: true})
	nkeys := 30 + r.Intn(500)
	nops := 200 + r.Intn(c.Pick(1200, 2500))
	c.Begin(i, fmt.Sprintf("opts=%v nkeys=%d nops=%d", os.Desc, nkeys, nops))
	var ru *dbx.Runner
	var views []view
	var snaps []*leveldb.Snapshot
	var tr *leveldb.Transaction
	failed := false
	fail := func(sig, msg string, w interface{}) {
		failed = true
		c.Violation(i, sig, msg, w)
	}
	panicked := c.Guard(i, "C02 case", func() {
		var err error
		ru, err = dbx.NewRunner(r, os, nkeys, false)
		if err != nil {
			fail("open-failed", err.Error(), os.Desc)
			return
		}
		ru.NoReopen = true // snapshots do not survive a reopen
		// Build the state; take snapshots on the way so that compaction must keep old versions.
		for n := 0; n < nops; n++ {
			if err := ru.Step(); err != nil {
				fail("state-building-mismatch", err.Error(), err)
				return
			}
			if r.Intn(nops/6+1) == 0 && len(snaps) < 6 {
				s, err := ru.DB.GetSnapshot()
				if err != nil {
					fail("snapshot-error", err.Error(), nil)
					return
				}
				snaps = append(snaps, s)
				mc := ru.M.Clone()
				ss := s
				views = append(views, view{fmt.Sprintf("snapshot@op%d", ru.NOps), mc, func(rg *util.Range) iterator.Iterator { return ss.NewIterator(rg, nil) }})
			}
		}
		if r.Intn(2) == 0 {
			// settle half of the states so that both "busy" and "quiet" layouts are walked
			leveldb.VerifBarrier(ru.DB)
		}
		views = append(views, view{"db", ru.M.Clone(), func(rg *util.Range) iterator.Iterator { return ru.DB.NewIterator(rg, nil) }})
		// A transaction view layered over the DB.
		if r.Intn(3) != 0 {
			t, err := ru.DB.OpenTransaction()
			if err != nil {
				fail("opentransaction-error", err.Error(), nil)
				return
			}
			tr = t
			tm := ru.M.Clone()
			nw := 1 + r.Intn(300)
			for j := 0; j < nw; j++ {
				k := ru.Keys.Pick(r)
				if r.Intn(4) == 0 {
					if err := tr.Delete(k, nil); err != nil {
						fail("transaction-write-error", err.Error(), nil)
						return
					}
					tm.Delete(k)
				} else {
					v := model.Value(7, uint32(j), 0, model.ValueSize(r, os.O.GetBlockSize(), os.O.GetWriteBuffer()))
					if err := tr.Put(k, v, nil); err != nil {
						fail("transaction-write-error", err.Error(), nil)
						return
					}
					tm.Put(k, v)
				}
			}
			views = append(views, view{"transaction", tm, func(rg *util.Range) iterator.Iterator { return tr.NewIterator(rg, nil) }})
			c.Count("transaction_views", 1)
		}
		for vi, v := range views {
			if failed {
				break
			}
			walkView(c, i, vi, v, ru, r, os, fail)
		}
		// A transaction iterator that is kept while the transaction goes on writing (and spilling its buffer
		// into tables): it keeps presenting the pairs of the instant it was created, for any walk.
		if tr != nil && !failed {
			tv := views[len(views)-1]
			for round := 0; round < 3 && !failed; round++ {
				var rg *util.Range
				if r.Intn(2) == 0 {
					a, b := ru.Keys.Pick(r), ru.Keys.Pick(r)
					if os.O.Comparer.Compare(a, b) > 0 {
						a, b = b, a
					}
					rg = &util.Range{Start: a, Limit: b}
				}
				var list []model.KV
				if rg == nil {
					list = tv.m.Range(nil, nil)
				} else {
					list = tv.m.Range(rg.Start, rg.Limit)
				}
				it := tr.NewIterator(rg, nil)
				cur := model.NewCursor(list, os.O.Comparer)
				ws := &dbx.WalkStats{}
				seek := func() []byte { return ru.Keys.Pick(r) }
				mm := dbx.WalkFrom(r, it, cur, true, seek, 20+r.Intn(100), ws)
				for seg := 0; seg < 3 && mm == nil && !failed; seg++ {
					for j := 0; j < 20+r.Intn(250); j++ {
						k := ru.Keys.Pick(r)
						var err error
						if r.Intn(4) == 0 {
							err = tr.Delete(k, nil)
							tv.m.Delete(k)
						} else {
							v := model.Value(8, uint32(round*1000+seg*300+j), 0, model.ValueSize(r, os.O.GetBlockSize(), os.O.GetWriteBuffer()))
							err = tr.Put(k, v, nil)
							tv.m.Put(k, v)
						}
						if err != nil {
							fail("transaction-write-error", err.Error(), nil)
							break
						}
					}
					mm = dbx.WalkFrom(r, it, cur, false, seek, 20+r.Intn(100), ws)
					c.Count("held_transaction_iterator_segments", 1)
				}
				it.Release()
				c.Count("reversals", int64(ws.Reversals))
				if mm != nil {
					fail("iterator-mismatch:held-transaction-iterator", "transaction iterator kept across later writes of the same transaction: "+mm.Error(),
						map[string]interface{}{"mismatch": mm, "options": os.Desc, "list_len": len(list)})
				}
			}
		}
	})
	c.Eval()
	if ru != nil && !panicked {
		c.Guard(i, "cleanup", func() {
			if tr != nil {
				tr.Discard()
			}
			for _, s := range snaps {
				s.Release()
			}
			ru.Close()
		})
		c.Count("views", int64(len(views)))
		c.Count("table_compactions_in_states", int64(ru.LogContains("table@compaction committed")))
		c.Count("comparer:"+os.O.Comparer.Name(), 1)
	}
}

func pickBound(r *rand.Rand, ru *dbx.Runner, live [][]byte) []byte {
	switch r.Intn(7) {
	case 0:
		return nil
	case 1, 2:
		if len(live) > 0 {
			return live[r.Intn(len(live))]
		}
		return ru.Keys.Pick(r)
	case 3:
		return ru.Keys.Probe(r)
	case 4:
		return []byte{} // before every key under the bytewise orders
	case 5:
		return []byte{0xff, 0xff, 0xff, 0xff, 0xff, 0xff, 0xff, 0xff, 0xff, 0xff, 0xff, 0xff, 0xff}
	default:
		return ru.Keys.Pick(r)
	}
}

func walkView(c *wk.Ctx, ci, vi int, v view, ru *dbx.Runner, r *rand.Rand, os model.OptSet, fail func(string, string, interface{})) {
	cmp := os.O.Comparer
	live := v.m.Keys()
	niters := 6 + r.Intn(c.Pick(14, 40))
	for it := 0; it < niters; it++ {
		var rg *util.Range
		class := "nil-range"
		if r.Intn(5) != 0 {
			a, b := pickBound(r, ru, live), pickBound(r, ru, live)
			class = "ordered"
			if a != nil && b != nil {
				switch x := cmp.Compare(a, b); {
				case x == 0:
					class = "empty(start=limit)"
				case x > 0:
					if r.Intn(6) == 0 {
						class = "inverted"
					} else {
						a, b = b, a
					}
				}
			}
			if a == nil || b == nil {
				class = "half-open"
			}
			rg = &util.Range{Start: a, Limit: b}
		}
		var list []model.KV
		if rg == nil {
			list = v.m.Range(nil, nil)
		} else if class == "inverted" {
			list = nil // [Start, Limit) with Start > Limit denotes the empty set
		} else {
			list = v.m.Range(rg.Start, rg.Limit)
		}
		iter := v.newI(rg)
		ws := &dbx.WalkStats{}
		seek := func() []byte {
			switch r.Intn(6) {
			case 0:
				return ru.Keys.Probe(r)
			case 1:
				if len(list) > 0 {
					return list[r.Intn(len(list))].K
				}
				return ru.Keys.Pick(r)
			case 2:
				return pickBound(r, ru, live)
			default:
				return ru.Keys.Pick(r)
			}
		}
		ncalls := 50 + r.Intn(350)
		var mm *dbx.WalkMismatch
		if r.Intn(8) == 0 {
			mm = dbx.FullScan(iter, list)
			c.Count("full_scans", 1)
		}
		if mm == nil {
			mm = dbx.Walk(r, iter, list, cmp, seek, ncalls, ws)
		}
		iter.Release()
		c.Count("iterators", 1)
		c.Count("range:"+class, 1)
		for k, n := range ws.Calls {
			c.Count("call:"+k, int64(n))
		}
		c.Count("reversals", int64(ws.Reversals))
		c.Count("stepped_off_an_end", int64(ws.OffEnds))
		c.Count("came_back_from_an_end", int64(ws.Returns))
		c.Count("pairs_in_lists", int64(len(list)))
		if mm != nil {
			sig := "iterator-mismatch:" + v.name[:2]
			if class == "inverted" {
				sig = "iterator-mismatch:inverted-range"
			}
			w := map[string]interface{}{"view": v.name, "range_class": class, "mismatch": mm, "options": os.Desc}
			if rg != nil {
				w["start"], w["limit"] = dbx.Hex(rg.Start), dbx.Hex(rg.Limit)
			}
			fail(sig, mm.Error(), w)
			return
		}
		if ws.Reversals > 0 && len(list) >= 2 {
			c.Nontrivial(fmt.Sprintf("c%d-v%d-i%d", ci, vi, it))
		}
		if c.WantSample() && len(list) > 3 && it == 2 {
			c.Sample(map[string]interface{}{"case": ci, "view": v.name, "range_class": class, "list_len": len(list),
				"calls": ws.Calls, "reversals": ws.Reversals, "options": os.Desc})
		}
	}
}

var _ = opt.DefaultBlockSize
