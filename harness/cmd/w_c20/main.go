// Worker for C20: the DB neither keeps nor exposes shared buffers across the API
// boundary. The program scribbles over every argument buffer right after each call
// returns, over every value returned by Get, and checks that iterator Key/Value
// stay intact until the iterator is moved.
package main

import (
	"bytes"
	"fmt"
	"math/rand"

	"github.com/syndtr/goleveldb/leveldb"
	"github.com/syndtr/goleveldb/leveldb/opt"
	"github.com/syndtr/goleveldb/leveldb/util"

	"verif/dbx"
	"verif/model"
	"verif/wk"
)

func main() { wk.Main("C20", run) }

func run(c *wk.Ctx) {
	ncases := c.Pick(960, 9000)
	if c.Race {
		ncases = c.Pick(64, 400)
	}
	for i := 0; i < ncases; i++ {
		if c.Mine(i) {
			runCase(c, i)
		}
	}
}

func scribble(b []byte) {
	for i := range b {
		b[i] ^= 0xA5
	}
}

// scribbleAll is what a caller may do to a value it owns: overwrite it and grow it in place
// (append / v[:cap(v)]) — a private copy has private spare capacity too.
func scribbleAll(b []byte) {
	b = b[:cap(b)]
	for i := range b {
		b[i] ^= 0xA5
	}
}

type st struct {
	c      *wk.Ctx
	i      int
	r      *rand.Rand
	ru     *dbx.Runner
	os     model.OptSet
	cell   string
	failed bool
}

func (s *st) fail(sig, msg string) {
	if !s.failed {
		s.failed = true
		s.c.Violation(s.i, sig, msg, map[string]interface{}{"options": s.os.Desc, "cell": s.cell, "recent_ops": s.ru.Trace})
	}
}

// arg makes a private copy that is handed to the API, plus the reference copy.
func arg(b []byte) (pass, ref []byte) {
	return append([]byte{}, b...), append([]byte{}, b...)
}

func (s *st) argUnchanged(api, what string, pass, ref []byte) {
	if !bytes.Equal(pass, ref) {
		s.fail("argument-modified:"+api, fmt.Sprintf("%s modified its %s argument: %x -> %x", api, what, ref, pass))
	}
	scribble(pass)
	s.c.Count("scribble:"+api+":"+what, 1)
}

func (s *st) put(k, v []byte) {
	kp, kr := arg(k)
	vp, vr := arg(v)
	s.ru.NOps++
	if err := s.ru.DB.Put(kp, vp, nil); err != nil {
		s.fail("unexpected-error", "Put: "+err.Error())
		return
	}
	s.argUnchanged("Put", "key", kp, kr)
	s.argUnchanged("Put", "value", vp, vr)
	s.ru.M.Put(k, v)
	s.ru.Used[string(k)] = true
}

func (s *st) del(k []byte) {
	kp, kr := arg(k)
	s.ru.NOps++
	if err := s.ru.DB.Delete(kp, nil); err != nil {
		s.fail("unexpected-error", "Delete: "+err.Error())
		return
	}
	s.argUnchanged("Delete", "key", kp, kr)
	s.ru.M.Delete(k)
	s.ru.Used[string(k)] = true
}

func (s *st) batch(b *leveldb.Batch, n int) {
	type rec struct {
		del  bool
		k, v []byte
	}
	var recs []rec
	for j := 0; j < n; j++ {
		k := s.ru.Keys.Pick(s.r)
		if s.r.Intn(4) == 0 {
			kp, kr := arg(k)
			b.Delete(kp)
			s.argUnchanged("Batch.Delete", "key", kp, kr)
			recs = append(recs, rec{true, k, nil})
		} else {
			v := model.Value(2, uint32(s.ru.NOps), uint32(j), model.ValueSize(s.r, s.os.O.GetBlockSize(), s.os.O.GetWriteBuffer()))
			kp, kr := arg(k)
			vp, vr := arg(v)
			b.Put(kp, vp)
			s.argUnchanged("Batch.Put", "key", kp, kr)
			s.argUnchanged("Batch.Put", "value", vp, vr)
			recs = append(recs, rec{false, k, v})
		}
	}
	s.ru.NOps++
	dump := append([]byte{}, b.Dump()...)
	if err := s.ru.DB.Write(b, nil); err != nil {
		s.fail("unexpected-error", "Write: "+err.Error())
		return
	}
	if !bytes.Equal(dump, b.Dump()) {
		s.fail("argument-modified:Write", "Write modified the batch contents")
	}
	for _, rc := range recs {
		if rc.del {
			s.ru.M.Delete(rc.k)
		} else {
			s.ru.M.Put(rc.k, rc.v)
		}
		s.ru.Used[string(rc.k)] = true
	}
	// The caller may reuse the batch at once.
	b.Reset()
	s.c.Count("scribble:Write:batch-reuse", 1)
}

func (s *st) get(k []byte) {
	want, live := s.ru.M.Get(k)
	for round := 0; round < 2; round++ {
		kp, kr := arg(k)
		var ro *opt.ReadOptions
		if s.r.Intn(3) == 0 {
			ro = &opt.ReadOptions{DontFillCache: true} // a block already in the cache is still served from it
			s.c.Count("gets_with_dont_fill_cache", 1)
		}
		got, err := s.ru.DB.Get(kp, ro)
		s.argUnchanged("Get", "key", kp, kr)
		if live {
			if err != nil || !bytes.Equal(got, want) {
				g := dbx.Hex(got)
				if err != nil {
					g = "error: " + err.Error()
				}
				sig := "read-mismatch"
				if round == 1 {
					sig = "result-aliased:Get"
				}
				s.fail(sig, fmt.Sprintf("Get(%x) round %d = %s want %s (round 1 follows a scribble over the value returned in round 0)", k, round, g, dbx.Hex(want)))
				return
			}
			scribbleAll(got)
			s.c.Count("scribble:Get:result", 1)
			if len(got) == 0 {
				s.c.Count("scribble:Get:empty-result-grown-in-place", 1)
			}
		} else if err != leveldb.ErrNotFound {
			s.fail("read-mismatch", fmt.Sprintf("Get(%x) of a dead key: %v", k, err))
			return
		}
	}
	kp, kr := arg(k)
	has, err := s.ru.DB.Has(kp, nil)
	s.argUnchanged("Has", "key", kp, kr)
	if err != nil || has != live {
		s.fail("read-mismatch", fmt.Sprintf("Has(%x)=%v,%v want %v", k, has, err, live))
	}
	s.c.Count("reads_reverified_after_scribble", 1)
}

func (s *st) iterCheck(churn func()) {
	var rg *util.Range
	if s.r.Intn(2) == 0 {
		a, b := s.ru.Keys.Pick(s.r), s.ru.Keys.Pick(s.r)
		if s.os.O.Comparer.Compare(a, b) > 0 {
			a, b = b, a
		}
		// The range is not scribbled: the statement does not list NewIterator among
		// the calls after which argument buffers may be overwritten.
		rg = &util.Range{Start: append([]byte{}, a...), Limit: append([]byte{}, b...)}
		it := s.ru.DB.NewIterator(rg, nil)
		list := s.ru.M.Range(a, b)
		s.walkIter(it, list, churn)
		return
	}
	it := s.ru.DB.NewIterator(nil, nil)
	s.walkIter(it, s.ru.M.Range(nil, nil), churn)
}

func (s *st) walkIter(it interface {
	First() bool
	Next() bool
	Prev() bool
	Last() bool
	Seek([]byte) bool
	Key() []byte
	Value() []byte
	Release()
	Valid() bool
}, list []model.KV, churn func()) {
	defer it.Release()
	cur := model.NewCursor(list, s.os.O.Comparer)
	steps := 5 + s.r.Intn(25)
	for n := 0; n < steps && !s.failed; n++ {
		var g, w bool
		switch s.r.Intn(5) {
		case 0:
			k := s.ru.Keys.Pick(s.r)
			kp, kr := arg(k)
			g, w = it.Seek(kp), cur.Seek(k)
			s.argUnchanged("Seek", "key", kp, kr)
		case 1:
			g, w = it.Prev(), cur.Prev()
		case 2:
			if n == 0 {
				g, w = it.Last(), cur.Last()
			} else {
				g, w = it.Next(), cur.Next()
			}
		default:
			g, w = it.Next(), cur.Next()
		}
		if g != w || (w && (!bytes.Equal(it.Key(), cur.Key()) || !bytes.Equal(it.Value(), cur.Value()))) {
			s.fail("read-mismatch", fmt.Sprintf("iterator step %d: got %v %x want %v %x (list of %d pairs, first %x last %x)", n, g, it.Key(), w, cur.Key(), len(list), list[0].K, list[len(list)-1].K))
			return
		}
		if !w {
			continue
		}
		// Key/Value must stay intact until the iterator is moved, whatever else happens.
		k0 := append([]byte{}, it.Key()...)
		v0 := append([]byte{}, it.Value()...)
		kAlias, vAlias := it.Key(), it.Value()
		if s.r.Intn(3) == 0 {
			churn()
			s.c.Count("iterator_pairs_held_across_writes_and_compaction", 1)
		}
		if !bytes.Equal(kAlias, k0) || !bytes.Equal(vAlias, v0) || !bytes.Equal(it.Key(), k0) || !bytes.Equal(it.Value(), v0) {
			s.fail("iterator-pair-changed", fmt.Sprintf("iterator Key/Value changed before the iterator was moved: key %x -> %x", k0, it.Key()))
			return
		}
		s.c.Count("iterator_pairs_rechecked", 1)
	}
}

func runCase(c *wk.Ctx, i int) {
	r := c.Rand(i)
	os := model.RandomOptions(r, model.OptConstraints{})
	// walk the matrix cells deterministically by case index
	os.O.DisableBufferPool = i%2 == 1
	switch (i / 2) % 3 {
	case 0:
		os.O.DisableBlockCache, os.O.BlockCacheCapacity = true, 0
	case 1:
		os.O.DisableBlockCache, os.O.BlockCacheCapacity = false, 4<<10
	default:
		os.O.DisableBlockCache, os.O.BlockCacheCapacity = false, 8<<20
	}
	if (i/6)%2 == 0 {
		os.O.Compression = opt.NoCompression
	} else {
		os.O.Compression = opt.SnappyCompression
	}
	cell := fmt.Sprintf("bufferpool=%v/blockcache=%d/off=%v/compression=%v", !os.O.DisableBufferPool, os.O.BlockCacheCapacity, os.O.DisableBlockCache, os.O.Compression)
	os.Desc["cell"] = cell
	nkeys := 30 + r.Intn(300)
	nops := 150 + r.Intn(c.Pick(500, 1500))
	c.Begin(i, fmt.Sprintf("cell=%s opts=%v", cell, os.Desc))
	s := &st{c: c, i: i, r: r, os: os, cell: cell}
	panicked := c.Guard(i, "C20 case", func() {
		ru, err := dbx.NewRunner(r, os, nkeys, false)
		if err != nil {
			c.Violation(i, "open-failed", err.Error(), os.Desc)
			s.failed = true
			return
		}
		s.ru = ru
		b := new(leveldb.Batch)
		churn := func() {
			for j := 0; j < 1+r.Intn(30); j++ {
				s.put(ru.Keys.Pick(r), model.Value(4, uint32(ru.NOps), uint32(j), 20+r.Intn(200)))
			}
			if r.Intn(2) == 0 {
				ru.DB.CompactRange(util.Range{})
			}
		}
		for n := 0; n < nops && !s.failed; n++ {
			switch x := r.Intn(100); {
			case x < 35:
				v := model.Value(1, uint32(ru.NOps), 0, model.ValueSize(r, os.O.GetBlockSize(), os.O.GetWriteBuffer()))
				if r.Intn(8) == 0 {
					v = []byte{} // the empty value: nothing to copy, but still nothing to share
				}
				s.put(ru.Keys.Pick(r), v)
			case x < 45:
				s.del(ru.Keys.Pick(r))
			case x < 55:
				s.batch(b, 1+r.Intn(20))
			case x < 85:
				s.get(ru.Keys.Pick(r))
			case x < 90:
				s.iterCheck(churn)
			case x < 94:
				// push everything into tables: later reads are served from blocks
				ru.DB.CompactRange(util.Range{})
				leveldb.VerifBarrier(ru.DB)
				c.Count("forced_into_tables", 1)
				for j := 0; j < 30 && !s.failed; j++ {
					s.get(ru.Keys.Pick(r))
				}
			case x < 96:
				// transaction reads
				tr, err := ru.DB.OpenTransaction()
				if err != nil {
					s.fail("unexpected-error", "OpenTransaction: "+err.Error())
					break
				}
				tm := ru.M.Clone()
				for j := 0; j < 1+r.Intn(40); j++ {
					k := ru.Keys.Pick(r)
					v := model.Value(5, uint32(ru.NOps), uint32(j), 20+r.Intn(300))
					if r.Intn(8) == 0 {
						v = []byte{}
					}
					kp, kr := arg(k)
					vp, vr := arg(v)
					if err := tr.Put(kp, vp, nil); err != nil {
						s.fail("unexpected-error", "Transaction.Put: "+err.Error())
					}
					s.argUnchanged("Transaction.Put", "key", kp, kr)
					s.argUnchanged("Transaction.Put", "value", vp, vr)
					tm.Put(k, v)
				}
				for j := 0; j < 20 && !s.failed; j++ {
					k := ru.Keys.Pick(r)
					want, live := tm.Get(k)
					for round := 0; round < 2; round++ {
						got, err := tr.Get(k, nil)
						if live && (err != nil || !bytes.Equal(got, want)) || !live && err != leveldb.ErrNotFound {
							sig := "read-mismatch"
							if round == 1 {
								sig = "result-aliased:Transaction.Get"
							}
							s.fail(sig, fmt.Sprintf("Transaction.Get(%x) round %d = %x,%v want %x", k, round, got, err, want))
							break
						}
						scribbleAll(got)
						c.Count("scribble:Transaction.Get:result", 1)
						if live && len(got) == 0 {
							c.Count("scribble:Transaction.Get:empty-result-grown-in-place", 1)
						}
					}
				}
				if r.Intn(2) == 0 {
					if err := tr.Commit(); err != nil {
						s.fail("unexpected-error", "Commit: "+err.Error())
					}
					ru.M = tm
					for _, k := range tm.Keys() {
						ru.Used[string(k)] = true
					}
				} else {
					tr.Discard()
				}
			default:
				if err := ru.Reopen(); err != nil {
					s.fail("read-mismatch", err.Error())
				}
			}
		}
		if !s.failed {
			if err := ru.Sweep(); err != nil {
				s.fail("content-changed-by-scribbling", err.Error())
			}
		}
		if !s.failed {
			if err := ru.Reopen(); err != nil {
				s.fail("content-changed-by-scribbling", err.Error())
			} else if err := ru.Sweep(); err != nil {
				s.fail("content-changed-by-scribbling", err.Error())
			}
		}
	})
	c.Eval()
	if s.ru != nil && !panicked {
		c.Guard(i, "close", func() { s.ru.Close() })
		c.Count("cell:"+cell, 1)
		c.Distinct("cells", cell)
		if !s.failed {
			c.Nontrivial(fmt.Sprintf("case-%d", i))
			if c.WantSample() {
				c.Sample(map[string]interface{}{"case": i, "cell": cell, "nops": nops, "options": os.Desc})
			}
		}
	}
}
