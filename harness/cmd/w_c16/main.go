// Worker for C16: filters never hide a stored key; they change cost, not results.
//
// Three families of cases, all seeded from c.Rand(i):
//
//	direct  filter.NewBloomFilter(bits) generator/Contains on arbitrary key sets, several
//	        filters appended into one buffer as the table writer does;
//	table   one sorted input written with table.NewWriter under a filter policy and a
//	        filter-block layout, read back with table.NewReader under every way a policy
//	        can (fail to) match: filtered and unfiltered lookups against the model;
//	db      one seeded dbx program replayed under 4 filter settings which are switched at
//	        every reopen: reads against the model, final dumps against each other.
//
// Oracle boundaries (what is NOT demanded): a filtered lookup of a key that is not stored
// may answer "not found" where the unfiltered lookup answers the next greater key (that is
// the documented meaning of filtered=true); false-positive rates are recorded, never judged;
// the on-disk layout of the filter block is parsed for coverage only.
package main

import (
	"bytes"
	"encoding/binary"
	"encoding/hex"
	"fmt"
	"math/rand"
	"sort"
	"sync/atomic"

	"github.com/syndtr/goleveldb/leveldb"
	"github.com/syndtr/goleveldb/leveldb/cache"
	"github.com/syndtr/goleveldb/leveldb/comparer"
	"github.com/syndtr/goleveldb/leveldb/filter"
	"github.com/syndtr/goleveldb/leveldb/opt"
	"github.com/syndtr/goleveldb/leveldb/storage"
	"github.com/syndtr/goleveldb/leveldb/table"
	"github.com/syndtr/goleveldb/leveldb/util"

	"verif/dbx"
	"verif/model"
	"verif/wk"
)

func main() { wk.Main("C16", run) }

const (
	famDirect = iota
	famTable
	famDB
)

// family maps a case index to its family. Blocks of 16 consecutive indices share one family
// (so that 16 shards stay balanced); of 20 blocks 12 are direct, 7 table, 1 db (a db case
// costs about 25 table cases or 150 direct ones).
func family(i int) int {
	switch b := (i / 16) % 20; {
	case b == 19:
		return famDB
	case b%3 == 1 || b == 18:
		return famTable
	default:
		return famDirect
	}
}

func run(c *wk.Ctx) {
	n := c.Pick(4800, 48000)
	for i := 0; i < n; i++ {
		if !c.Mine(i) {
			continue
		}
		r := c.Rand(i)
		switch family(i) {
		case famDirect:
			directCase(c, i, r)
		case famTable:
			tableCase(c, i, r)
		default:
			dbCase(c, i, r)
		}
	}
}

// ---------------------------------------------------------------------------------------
// generators shared by the families

func hx(b []byte) string {
	if b == nil {
		return "<nil>"
	}
	if len(b) == 0 {
		return `""`
	}
	if len(b) > 96 {
		return fmt.Sprintf("%s…(%d bytes)", hex.EncodeToString(b[:96]), len(b))
	}
	return hex.EncodeToString(b)
}

// pickBits draws a bits-per-key value: the whole range 1..64, the boundary values of the
// probe-count formula k = bits*69/100 clamped to [1,30], 0, and values beyond 64 (the
// constructor accepts any int; negative values are outside the property and are only
// probed informationally, see negativeBitsProbe).
func pickBits(r *rand.Rand) int {
	switch x := r.Intn(100); {
	case x < 55:
		return 1 + r.Intn(64)
	case x < 63:
		return 0
	case x < 85:
		return []int{1, 2, 3, 4, 5, 7, 8, 9, 10, 11, 13, 16, 17, 29, 30, 31, 43, 44, 45, 63, 64}[r.Intn(21)]
	default:
		return []int{65, 66, 99, 100, 127, 128, 129, 255, 256, 371, 372, 512, 1000}[r.Intn(13)]
	}
}

func bitsBucket(b int) string {
	switch {
	case b <= 0:
		return "0"
	case b == 1:
		return "1"
	case b <= 4:
		return "2-4"
	case b <= 9:
		return "5-9"
	case b <= 15:
		return "10-15"
	case b <= 30:
		return "16-30"
	case b <= 64:
		return "31-64"
	default:
		return "65+"
	}
}

// pickSize draws a key-set size in 0..max with weight on the small and the boundary sizes.
func pickSize(r *rand.Rand, max int) int {
	var n int
	switch x := r.Intn(100); {
	case x < 6:
		n = 0
	case x < 12:
		n = 1
	case x < 18:
		n = 2 + r.Intn(2)
	case x < 38:
		n = 4 + r.Intn(7)
	case x < 63:
		n = 11 + r.Intn(90)
	case x < 88:
		n = 101 + r.Intn(900)
	case x < 98:
		n = 1001 + r.Intn(4000)
	default:
		n = 5001 + r.Intn(5000)
		if r.Intn(4) == 0 {
			n = 10000
		}
	}
	if n > max {
		n = max
	}
	return n
}

// genKeys produces n keys (not necessarily distinct) of arbitrary bytes and lengths.
func genKeys(r *rand.Rand, n int) [][]byte {
	keys := make([][]byte, 0, n+2)
	style := r.Intn(7)
	var pool *model.KeyGen
	prefix := make([]byte, r.Intn(61))
	r.Read(prefix)
	base := r.Intn(1 << 30)
	for len(keys) < n {
		st := style
		if style == 6 {
			st = r.Intn(6)
		}
		var k []byte
		switch st {
		case 0: // random bytes, random length (every length residue mod 4 matters to the hash tail)
			l := r.Intn(25)
			switch r.Intn(40) {
			case 0:
				l = r.Intn(300)
			case 1:
				l = 1 + r.Intn(4096)
			}
			k = make([]byte, l)
			r.Read(k)
		case 1: // hostile pool of the shared generator (prefixes, neighbours, runs)
			if pool == nil {
				pool = model.NewKeyGen(r, max(n, 8))
			}
			k = pool.Pick(r)
		case 2: // sequential text keys
			k = []byte(fmt.Sprintf("key%09d", base+len(keys)))
		case 3: // long shared prefix, short tails of every length
			tl := r.Intn(8)
			k = append(append([]byte(nil), prefix...), make([]byte, tl)...)
			r.Read(k[len(prefix):])
		case 4: // 8-byte big-endian counters
			k = make([]byte, 8)
			binary.BigEndian.PutUint64(k, uint64(base+len(keys)*(1+r.Intn(3))))
		default: // runs of 0x00 / 0xff / one byte, all lengths
			l := r.Intn(70)
			ch := []byte{0, 0xff, byte(r.Intn(256))}[r.Intn(3)]
			k = bytes.Repeat([]byte{ch}, l)
		}
		keys = append(keys, k)
	}
	if n > 0 && r.Intn(3) == 0 {
		keys[r.Intn(n)] = []byte{} // the empty key
	}
	if n > 1 && r.Intn(3) == 0 { // duplicates
		for d := 1 + r.Intn(1+n/4); d > 0; d-- {
			keys[r.Intn(n)] = keys[r.Intn(n)]
		}
	}
	return keys
}

// genProbes produces up to n keys that are not in set: neighbours of members and random keys.
func genProbes(r *rand.Rand, members [][]byte, set map[string]bool, n int) [][]byte {
	out := make([][]byte, 0, n)
	seen := map[string]bool{}
	for tries := 0; len(out) < n && tries < 4*n+16; tries++ {
		var k []byte
		if len(members) > 0 && r.Intn(4) != 0 {
			b := members[r.Intn(len(members))]
			k = append([]byte(nil), b...)
			switch r.Intn(7) {
			case 0:
				k = append(k, 0)
			case 1:
				k = append(k, 0xff)
			case 2:
				if len(k) > 0 {
					k = k[:len(k)-1]
				}
			case 3:
				if len(k) > 0 {
					k[len(k)-1]++
				}
			case 4:
				if len(k) > 0 {
					k[len(k)-1]--
				}
			case 5:
				if len(k) > 0 {
					k[r.Intn(len(k))] ^= 1 << uint(r.Intn(8))
				}
			default:
				k = append([]byte{byte(r.Intn(256))}, k...)
			}
		} else {
			switch r.Intn(4) {
			case 0:
				k = []byte{}
			case 1:
				k = bytes.Repeat([]byte{0xff}, 1+r.Intn(80))
			default:
				k = make([]byte, r.Intn(20))
				r.Read(k)
			}
		}
		if set[string(k)] || seen[string(k)] {
			continue
		}
		seen[string(k)] = true
		out = append(out, k)
	}
	return out
}

// ---------------------------------------------------------------------------------------
// filter policies used by the table and db families

// fstats counts what went through a policy (atomics: compactions build filters on other goroutines).
type fstats struct {
	adds, built, calls, trues int64
	storedCalls               int64 // calls made while the harness was looking up a stored key
	stored                    int32 // set by the harness around a lookup of a stored key
}

// counting wraps a policy and counts; it does not change any answer.
type counting struct {
	filter.Filter
	st *fstats
}

func (f counting) NewGenerator() filter.FilterGenerator {
	return countingGen{f.Filter.NewGenerator(), f.st}
}

func (f counting) Contains(flt, key []byte) bool {
	atomic.AddInt64(&f.st.calls, 1)
	if atomic.LoadInt32(&f.st.stored) != 0 {
		atomic.AddInt64(&f.st.storedCalls, 1)
	}
	ok := f.Filter.Contains(flt, key)
	if ok {
		atomic.AddInt64(&f.st.trues, 1)
	}
	return ok
}

type countingGen struct {
	filter.FilterGenerator
	st *fstats
}

func (g countingGen) Add(key []byte) {
	atomic.AddInt64(&g.st.adds, 1)
	g.FilterGenerator.Add(key)
}

func (g countingGen) Generate(b filter.Buffer) {
	atomic.AddInt64(&g.st.built, 1)
	g.FilterGenerator.Generate(b)
}

// masked is a policy with its own name and its own encoding (the inner policy's bytes
// xor mask), so that a reader which applies the wrong policy to a filter block does not
// get away with it just because every bloom filter shares one name and one format.
type masked struct {
	inner filter.Filter
	name  string
	mask  byte
}

func (m masked) Name() string { return m.name }

func (m masked) NewGenerator() filter.FilterGenerator {
	return &maskedGen{inner: m.inner.NewGenerator(), mask: m.mask}
}

func (m masked) Contains(flt, key []byte) bool {
	plain := make([]byte, len(flt))
	for i, b := range flt {
		plain[i] = b ^ m.mask
	}
	return m.inner.Contains(plain, key)
}

type maskedGen struct {
	inner filter.FilterGenerator
	mask  byte
	tmp   util.Buffer
}

func (g *maskedGen) Add(key []byte) { g.inner.Add(key) }

func (g *maskedGen) Generate(b filter.Buffer) {
	g.tmp.Reset()
	g.inner.Generate(&g.tmp)
	src := g.tmp.Bytes()
	dst := b.Alloc(len(src))
	for i, x := range src {
		dst[i] = x ^ g.mask
	}
}

// ---------------------------------------------------------------------------------------
// family 1: direct

type span struct {
	start, end int
	keys       [][]byte
}

func directCase(c *wk.Ctx, i int, r *rand.Rand) {
	bits := pickBits(r)
	otherBits := pickBits(r)
	n := pickSize(r, 10000)
	if bits > 64 && n > 3000 {
		n = 3000
	}
	keys := genKeys(r, n)
	ngroups := 1
	if r.Intn(2) == 0 {
		ngroups = 1 + r.Intn(8)
	}
	c.Begin(i, fmt.Sprintf("direct bits=%d other=%d nkeys=%d groups=%d", bits, otherBits, n, ngroups))
	if i == 0 {
		negativeBitsProbe(c)
	}
	// cut the key list into ngroups consecutive groups (empty groups allowed)
	cuts := make([]int, 0, ngroups+1)
	cuts = append(cuts, 0)
	for g := 1; g < ngroups; g++ {
		cuts = append(cuts, r.Intn(n+1))
	}
	cuts = append(cuts, n)
	sort.Ints(cuts)
	junk := 0
	if r.Intn(4) == 0 {
		junk = 1 + r.Intn(9) // bytes already in the buffer before the first filter
	}
	scribble := byte(r.Intn(256))

	f := filter.NewBloomFilter(bits)
	other := filter.NewBloomFilter(otherBits)
	var spans []span
	var all []byte
	panicked := c.Guard(i, "bloom generate", func() {
		gen := f.NewGenerator()
		buf := &util.Buffer{}
		for j := 0; j < junk; j++ {
			buf.WriteByte(0xa5)
		}
		scratch := make([]byte, 0, 64)
		for g := 0; g+1 < len(cuts); g++ {
			grp := keys[cuts[g]:cuts[g+1]]
			for _, k := range grp {
				// the contract lets the caller reuse the key's memory after Add returns
				scratch = append(scratch[:0], k...)
				gen.Add(scratch)
				for x := range scratch {
					scratch[x] = scribble
				}
			}
			s := buf.Len()
			gen.Generate(buf)
			spans = append(spans, span{start: s, end: buf.Len(), keys: grp})
		}
		all = append([]byte(nil), buf.Bytes()...)
	})
	c.Eval()
	if panicked {
		return
	}
	c.Count("direct_cases", 1)
	c.Count("direct_filters_built", int64(len(spans)))
	c.Count("direct_filters_built:bits="+bitsBucket(bits), int64(len(spans)))
	c.Distinct("direct_bits_values", fmt.Sprint(bits))
	c.Max("direct_max_keys_in_one_filter", 0)
	if len(spans) > 1 {
		c.Count("direct_buffers_with_several_filters", 1)
	}
	var queries, members int64
	bad := false
	c.Guard(i, "bloom contains", func() {
		for gi, sp := range spans {
			flt := all[sp.start:sp.end]
			c.Max("direct_max_keys_in_one_filter", int64(len(sp.keys)))
			if len(sp.keys) == 0 {
				c.Count("direct_filters_of_zero_keys", 1)
			}
			for _, k := range sp.keys {
				members++
				for pi, pol := range []filter.Filter{f, other} {
					queries++
					if !pol.Contains(flt, k) && !bad {
						bad = true
						who := "the generating policy"
						if pi == 1 {
							who = fmt.Sprintf("a bloom policy with bits=%d", otherBits)
						}
						ks := make([]string, 0, 64)
						for x, kk := range sp.keys {
							if x >= 64 {
								break
							}
							ks = append(ks, hex.EncodeToString(kk))
						}
						c.Violation(i, "direct-false-negative", fmt.Sprintf("bloom(bits=%d): Contains=false for an added key %s (asked through %s; filter %d of %d in the buffer, %d keys, %d filter bytes)",
							bits, hx(k), who, gi, len(spans), len(sp.keys), len(flt)),
							map[string]interface{}{"bits": bits, "asking_bits": []int{bits, otherBits}[pi], "key_hex": hex.EncodeToString(k),
								"filter_hex": hx(flt), "filter_len": len(flt), "group": gi, "groups": len(spans),
								"group_size": len(sp.keys), "first_keys_of_group_hex": ks, "junk_prefix": junk})
					}
				}
			}
		}
	})
	c.Count("direct_membership_queries", queries)
	c.Count("direct_members_checked", members)
	// false-positive rate on non-members: informational only
	c.Guard(i, "bloom contains (probes)", func() {
		for _, sp := range spans {
			if len(sp.keys) < 64 {
				continue
			}
			set := make(map[string]bool, len(sp.keys))
			for _, k := range sp.keys {
				set[string(k)] = true
			}
			probes := genProbes(r, sp.keys, set, 200)
			hits := 0
			for _, p := range probes {
				if f.Contains(all[sp.start:sp.end], p) {
					hits++
				}
			}
			c.Count("direct_fp_probes:bits="+bitsBucket(bits), int64(len(probes)))
			c.Count("direct_fp_hits:bits="+bitsBucket(bits), int64(hits))
			c.Count("direct_fp_probes", int64(len(probes)))
			c.Count("direct_fp_hits", int64(hits))
			break
		}
	})
	if members > 0 && !bad {
		c.Nontrivial(fmt.Sprintf("case-%d", i))
		c.Count("nontrivial_direct", 1)
	}
	if c.WantSample() && members > 0 && i == 0 {
		c.Sample(map[string]interface{}{"case": i, "family": "direct", "bits": bits, "asked_also_with_bits": otherBits, "keys": n,
			"filters_in_buffer": len(spans), "filter_bytes": len(all), "membership_queries": queries})
	}
}

// negativeBitsProbe records (never judges) what a negative bits-per-key does: the
// constructor accepts any int, the property quantifies over 1..64 only.
func negativeBitsProbe(c *wk.Ctx) {
	func() {
		defer func() {
			if x := recover(); x != nil {
				c.Count("info_negative_bits_generate_panicked", 1)
			}
		}()
		g := filter.NewBloomFilter(-1).NewGenerator()
		g.Add([]byte("a"))
		buf := &util.Buffer{}
		g.Generate(buf)
		c.Count("info_negative_bits_generate_returned", 1)
	}()
}

// ---------------------------------------------------------------------------------------
// family 2: table

// recWriter records every Write of the table writer: the writer issues exactly one Write per
// block (payload + trailer) and one for the footer, which gives the block layout for the
// coverage counters without parsing anything the oracle depends on.
type recWriter struct {
	buf    bytes.Buffer
	starts []int
	lens   []int
}

func (w *recWriter) Write(p []byte) (int, error) {
	w.starts = append(w.starts, w.buf.Len())
	w.lens = append(w.lens, len(p))
	return w.buf.Write(p)
}

type kv struct{ k, v []byte }

type readerCfg struct {
	name    string
	o       *opt.Options
	st      *fstats
	matches bool // a policy of this configuration is expected to be applied to the filter block
}

const (
	nameA = "verif.c16.policyA"
	nameB = "verif.c16.policyB"
	nameC = "verif.c16.policyC"
)

func tableCase(c *wk.Ctx, i int, r *rand.Rand) {
	bits := pickBits(r)
	bitsN := pickBits(r)
	baseLg := []int{5, 8, 11}[r.Intn(3)]
	blockSize := []int{64, 100, 128, 256, 512, 1 << 10, 2 << 10, 4 << 10, 8 << 10, 16 << 10}[r.Intn(10)]
	restart := []int{1, 2, 16}[r.Intn(3)]
	compression := opt.NoCompression
	if r.Intn(2) == 0 {
		compression = opt.SnappyCompression
	}
	var cmp comparer.Comparer = comparer.DefaultComparer
	if r.Intn(4) == 0 {
		cmp = model.Lazy{} // bytewise order, no key shortening in the index
	}
	// writer policy: none / builtin bloom / a policy with its own name and encoding
	wkind := r.Intn(10)
	wst := &fstats{}
	var wpol filter.Filter
	wname := ""
	// masks stay below 32: a filter read through the wrong encoding then still carries a probe
	// count <= 31 (a count above 30 means "always match", which would hide a policy mix-up)
	mask := byte(1 + r.Intn(31))
	switch {
	case wkind == 0:
		wname = "none"
	case wkind < 6:
		wpol = counting{filter.NewBloomFilter(bits), wst}
		wname = fmt.Sprintf("bloom%d", bits)
	default:
		wpol = counting{masked{filter.NewBloomFilter(bits), nameA, mask}, wst}
		wname = fmt.Sprintf("policyA(bloom%d^%02x)", bits, mask)
	}
	n := pickSize(r, 10000)
	// value sizes: small; or around the partition size (blocks that skip partitions); or a few huge ones
	vmode := r.Intn(5)
	if vmode == 2 && n > 600 {
		n = 600
	}
	if vmode == 3 && n > 2000 {
		n = 2000
	}
	raw := genKeys(r, n)
	set := map[string]bool{}
	var kvs []kv
	for _, k := range raw {
		if !set[string(k)] {
			set[string(k)] = true
			kvs = append(kvs, kv{k: k})
		}
	}
	sort.Slice(kvs, func(a, b int) bool { return bytes.Compare(kvs[a].k, kvs[b].k) < 0 })
	for x := range kvs {
		var l int
		switch vmode {
		case 0:
			l = r.Intn(12)
		case 1, 4:
			l = r.Intn(48)
		case 2:
			l = r.Intn(3 << uint(baseLg))
		default:
			l = r.Intn(24)
			if r.Intn(60) == 0 {
				l = 1000 + r.Intn(70000)
			}
		}
		v := make([]byte, l)
		for y := range v {
			v[y] = "abcdefgh"[r.Intn(8)]
		}
		if l >= 4 {
			binary.BigEndian.PutUint32(v, uint32(x))
		}
		kvs[x].v = v
	}
	desc := fmt.Sprintf("table policy=%s baseLg=%d block=%d restart=%d compression=%v cmp=%s keys=%d vmode=%d", wname, baseLg, blockSize, restart, compression, cmp.Name(), len(kvs), vmode)
	c.Begin(i, desc)
	wopts := &opt.Options{Comparer: cmp, Filter: wpol, FilterBaseLg: baseLg, BlockSize: blockSize, BlockRestartInterval: restart, Compression: compression}
	witness := func(extra map[string]interface{}) map[string]interface{} {
		m := map[string]interface{}{"writer_policy": wname, "FilterBaseLg": baseLg, "BlockSize": blockSize, "BlockRestartInterval": restart,
			"Compression": fmt.Sprint(compression), "Comparer": cmp.Name(), "keys": len(kvs), "value_mode": vmode}
		for k, v := range extra {
			m[k] = v
		}
		return m
	}

	rec := &recWriter{}
	blockOf := make([]int, len(kvs)) // data block index of every key
	var werr error
	var wpool *util.BufferPool
	if r.Intn(3) == 0 {
		wpool = util.NewBufferPool(blockSize + 5)
	}
	panicked := c.Guard(i, "table write", func() {
		tw := table.NewWriter(rec, wopts, wpool, 1+r.Intn(4096))
		for x := range kvs {
			blockOf[x] = len(rec.starts)
			if werr = tw.Append(kvs[x].k, kvs[x].v); werr != nil {
				return
			}
		}
		werr = tw.Close()
	})
	c.Eval()
	if panicked {
		return
	}
	if werr != nil {
		c.Violation(i, "table-write-error", "table writer failed on a sorted input: "+werr.Error(), witness(nil))
		return
	}
	data := rec.buf.Bytes()
	c.Count("table_cases", 1)
	c.Count("tables_written:"+map[bool]string{true: "with_policy", false: "without_policy"}[wpol != nil], 1)
	c.Count("table_filters_built", wst.built)
	c.Count("table_keys_added_to_filters", wst.adds)
	c.Distinct("table_layout_cells", fmt.Sprintf("lg=%d/block=%d", baseLg, blockSize))

	// ---- layout, for coverage only
	lay := parseLayout(rec, wpol != nil)
	partOfBlock := func(b int) int { return -1 }
	emptyBefore := func(p int) int { return 0 }
	if lay != nil {
		c.Count("tables_layout_parsed", 1)
		c.Count("table_data_blocks", int64(lay.dataBlocks))
		if wpol != nil {
			c.Count("table_partitions", int64(lay.nfilters))
			c.Count("table_empty_partitions", int64(lay.empty))
			c.Count("partitions_per_table:"+partBucket(lay.nfilters), 1)
			c.Max("max_partitions_in_one_table", int64(lay.nfilters))
			if lay.empty > 0 {
				c.Count("tables_with_empty_partitions", 1)
			}
			if lay.baseLg != baseLg {
				c.Count("info_filter_block_baselg_differs", 1)
			}
			partOfBlock = func(b int) int {
				if b < 0 || b >= lay.dataBlocks {
					return -1
				}
				return rec.starts[b] >> uint(lay.baseLg)
			}
			emptyBefore = func(p int) int {
				if p < 0 {
					return 0
				}
				if p > len(lay.emptyPrefix)-1 {
					p = len(lay.emptyPrefix) - 1
				}
				if p < 0 {
					return 0
				}
				return lay.emptyPrefix[p]
			}
		}
	} else {
		c.Count("tables_layout_not_parsed", 1)
	}

	// ---- reader configurations
	mk := func(name string, f filter.Filter, alts []filter.Filter, matches bool, st *fstats) readerCfg {
		return readerCfg{name: name, st: st, matches: matches,
			o: &opt.Options{Comparer: cmp, Filter: f, AltFilters: alts, FilterBaseLg: []int{5, 8, 11}[r.Intn(3)], BlockSize: blockSize}}
	}
	var cfgs []readerCfg
	cfgs = append(cfgs, mk("no-policy", nil, nil, false, &fstats{}))
	switch {
	case wpol == nil:
		st := &fstats{}
		cfgs = append(cfgs, mk("bloom-on-unfiltered-table", counting{filter.NewBloomFilter(bitsN), st}, nil, false, st))
	case wkind < 6: // builtin bloom
		st1, st2, st3, st4 := &fstats{}, &fstats{}, &fstats{}, &fstats{}
		cfgs = append(cfgs,
			mk("same-policy", counting{filter.NewBloomFilter(bits), st1}, nil, true, st1),
			mk("bloom-other-bits", counting{filter.NewBloomFilter(bitsN), st2}, []filter.Filter{masked{filter.NewBloomFilter(3), nameB, 0x13}}, true, st2),
			mk("via-altfilters", masked{filter.NewBloomFilter(bitsN), nameB, 0x13}, []filter.Filter{masked{filter.NewBloomFilter(7), nameC, 0x17}, counting{filter.NewBloomFilter(bitsN), st3}}, true, st3),
			mk("no-matching-policy", counting{masked{filter.NewBloomFilter(bitsN), nameB, 0x13}, st4}, []filter.Filter{counting{masked{filter.NewBloomFilter(bits), nameC, mask}, st4}}, false, st4),
		)
	default: // own name and encoding
		st1, st2, st3, st4 := &fstats{}, &fstats{}, &fstats{}, &fstats{}
		cfgs = append(cfgs,
			mk("same-policy", counting{masked{filter.NewBloomFilter(bits), nameA, mask}, st1}, nil, true, st1),
			mk("same-name-other-bits", counting{masked{filter.NewBloomFilter(bitsN), nameA, mask}, st2}, []filter.Filter{filter.NewBloomFilter(bits)}, true, st2),
			mk("via-altfilters", filter.NewBloomFilter(bits), []filter.Filter{masked{filter.NewBloomFilter(7), nameC, mask}, counting{masked{filter.NewBloomFilter(bitsN), nameA, mask}, st3}}, true, st3),
			mk("no-matching-policy", counting{filter.NewBloomFilter(bits), st4}, []filter.Filter{counting{masked{filter.NewBloomFilter(bits), nameC, mask}, st4}}, false, st4),
		)
	}

	// ---- queries: stored keys (all, or a sample with the ends) and probes
	var qs []int
	if len(kvs) <= 300 {
		for x := range kvs {
			qs = append(qs, x)
		}
	} else {
		qs = append(qs, 0, len(kvs)-1)
		for len(qs) < 300 {
			qs = append(qs, r.Intn(len(kvs)))
		}
	}
	members := make([][]byte, len(kvs))
	for x := range kvs {
		members[x] = kvs[x].k
	}
	probes := genProbes(r, members, set, 60)
	lower := func(k []byte) int {
		return sort.Search(len(kvs), func(x int) bool { return bytes.Compare(kvs[x].k, k) >= 0 })
	}

	ok := true
	var storedThroughFilter int64
	for _, cf := range cfgs {
		if !ok {
			break
		}
		cf := cf
		var cacheNS *cache.NamespaceGetter
		var cc *cache.Cache
		switch r.Intn(3) {
		case 0:
			cc = cache.NewCache(cache.NewLRU([]int{1, 4 << 10, 8 << 20}[r.Intn(3)]))
			cacheNS = &cache.NamespaceGetter{Cache: cc, NS: 7}
		}
		var rpool *util.BufferPool
		if r.Intn(2) == 0 {
			rpool = util.NewBufferPool(blockSize + 5)
		}
		c.Guard(i, "table read", func() {
			tr, err := table.NewReader(bytes.NewReader(data), int64(len(data)), storage.FileDesc{Type: storage.TypeTable, Num: 7}, cacheNS, rpool, cf.o)
			if err != nil {
				ok = false
				c.Violation(i, "table-open-error", fmt.Sprintf("NewReader(%s) failed on a freshly written table: %v", cf.name, err), witness(map[string]interface{}{"reader": cf.name}))
				return
			}
			defer func() {
				tr.Release()
				if cc != nil {
					cc.Close(true)
				}
			}()
			fail := func(sig, msg string, q []byte, extra map[string]interface{}) {
				ok = false
				w := witness(map[string]interface{}{"reader": cf.name, "query_hex": hex.EncodeToString(q), "query_is_stored": set[string(q)],
					"block_cache": cacheNS != nil, "buffer_pool": rpool != nil})
				if len(data) <= 8<<10 {
					w["table_hex"] = hex.EncodeToString(data)
				}
				if lay != nil {
					w["layout"] = map[string]interface{}{"data_blocks": lay.dataBlocks, "partitions": lay.nfilters, "empty_partitions": lay.empty}
				}
				for k, v := range extra {
					w[k] = v
				}
				c.Violation(i, sig, fmt.Sprintf("[%s, reader %s] %s", wname, cf.name, msg), w)
			}
			lookup := func(q []byte, stored bool, idx int) bool {
				lb := lower(q)
				// unfiltered: exactly the model
				for _, filtered := range []bool{false, true} {
					if stored && filtered {
						atomic.StoreInt32(&cf.st.stored, 1)
					}
					rk, v, err := tr.Find(q, filtered, nil)
					rk, v = append([]byte(nil), rk...), append([]byte(nil), v...)
					rk2, err2 := tr.FindKey(q, filtered, nil)
					atomic.StoreInt32(&cf.st.stored, 0)
					c.Count("table_lookups", 2)
					for which, res := range []struct {
						k, v []byte
						err  error
					}{{rk, v, err}, {rk2, nil, err2}} {
						api := []string{"Find", "FindKey"}[which]
						if res.err != nil && res.err != table.ErrNotFound {
							fail("table-unexpected-error", fmt.Sprintf("%s(%s, filtered=%v) returned error %v", api, hx(q), filtered, res.err), q, nil)
							return false
						}
						notFound := res.err == table.ErrNotFound
						switch {
						case notFound && lb < len(kvs) && (!filtered || stored):
							sig := "table-unfiltered-differs-from-model"
							if filtered {
								sig = "table-filter-hides-stored-key"
							}
							fail(sig, fmt.Sprintf("%s(%s, filtered=%v) = not found, the table holds %s", api, hx(q), filtered, hx(kvs[lb].k)), q,
								map[string]interface{}{"filtered": filtered, "api": api, "want_key_hex": hex.EncodeToString(kvs[lb].k)})
							return false
						case notFound:
							// nothing >= q, or a filtered lookup of a key that is not stored: both legal
						case lb >= len(kvs) || !bytes.Equal(res.k, kvs[lb].k) || (which == 0 && !bytes.Equal(res.v, kvs[lb].v)):
							want := "<not found>"
							if lb < len(kvs) {
								want = hx(kvs[lb].k) + " => " + hx(kvs[lb].v)
							}
							sig := "table-unfiltered-differs-from-model"
							if filtered {
								sig = "table-filtered-differs"
							}
							fail(sig, fmt.Sprintf("%s(%s, filtered=%v) = %s => %s, model says %s", api, hx(q), filtered, hx(res.k), hx(res.v), want), q,
								map[string]interface{}{"filtered": filtered, "api": api})
							return false
						}
					}
				}
				v, err := tr.Get(q, nil)
				c.Count("table_lookups", 1)
				if stored {
					if err != nil || !bytes.Equal(v, kvs[idx].v) {
						fail("table-get-differs", fmt.Sprintf("Get(%s) = %s, %v; model says %s", hx(q), hx(v), err, hx(kvs[idx].v)), q, nil)
						return false
					}
				} else if err != table.ErrNotFound {
					fail("table-get-differs", fmt.Sprintf("Get(%s) of a key that is not stored = %s, %v", hx(q), hx(v), err), q, nil)
					return false
				}
				return true
			}
			before := atomic.LoadInt64(&cf.st.storedCalls)
			for _, x := range qs {
				if !lookup(kvs[x].k, true, x) {
					return
				}
				if cf.matches && lay != nil {
					p := partOfBlock(blockOf[x])
					if p >= 0 {
						switch {
						case p == 0:
							c.Count("stored_lookups_in_partition:first", 1)
						case p >= lay.nfilters-1:
							c.Count("stored_lookups_in_partition:last", 1)
						default:
							c.Count("stored_lookups_in_partition:inner", 1)
						}
						if e := emptyBefore(p); e > 0 {
							c.Count("stored_lookups_beyond_empty_partitions", 1)
							c.Count("empty_partitions_crossed", int64(e))
						}
					}
				}
			}
			asked := atomic.LoadInt64(&cf.st.storedCalls) - before
			if cf.matches && wpol != nil {
				storedThroughFilter += asked
				c.Count("table_membership_queries_for_stored_keys:"+cf.name, asked)
			} else if asked != 0 {
				// a policy that must not match was consulted: informational (it can only matter through results)
				c.Count("info_unexpected_policy_consulted", asked)
			}
			callsBefore, truesBefore := atomic.LoadInt64(&cf.st.calls), atomic.LoadInt64(&cf.st.trues)
			for _, p := range probes {
				if !lookup(p, false, -1) {
					return
				}
			}
			if cf.matches && wpol != nil {
				pc := atomic.LoadInt64(&cf.st.calls) - callsBefore
				pt := atomic.LoadInt64(&cf.st.trues) - truesBefore
				c.Count("table_fp_probes", pc)
				c.Count("table_fp_hits", pt)
				c.Count("table_lookups_cut_short_by_filter", pc-pt)
			}
			// iteration never consults a filter; the presence of a filter block must not disturb it
			it := tr.NewIterator(nil, nil)
			x := 0
			for it.Next() {
				if x >= len(kvs) || !bytes.Equal(it.Key(), kvs[x].k) || !bytes.Equal(it.Value(), kvs[x].v) {
					fail("table-iteration-differs", fmt.Sprintf("iteration entry %d = %s, model has %d entries", x, hx(it.Key()), len(kvs)), it.Key(), nil)
					it.Release()
					return
				}
				x++
			}
			ierr := it.Error()
			it.Release()
			if ierr != nil || x != len(kvs) {
				fail("table-iteration-differs", fmt.Sprintf("iteration ended after %d of %d entries, error %v", x, len(kvs), ierr), nil, nil)
				return
			}
			c.Count("table_iterations", 1)
			c.Count("table_reader_configs:"+cf.name, 1)
			if cacheNS != nil {
				c.Count("table_readers_with_block_cache", 1)
			}
		})
	}
	c.Count("table_membership_queries_for_stored_keys", storedThroughFilter)
	if ok && storedThroughFilter > 0 && lay != nil && lay.nfilters >= 1 {
		c.Nontrivial(fmt.Sprintf("case-%d", i))
		c.Count("nontrivial_table", 1)
	}
	if c.WantSample() && ok && storedThroughFilter > 0 && lay != nil && i%16 == 0 {
		c.Sample(map[string]interface{}{"case": i, "family": "table", "desc": desc, "table_bytes": len(data), "data_blocks": lay.dataBlocks,
			"partitions": lay.nfilters, "empty_partitions": lay.empty, "membership_queries_for_stored_keys": storedThroughFilter})
	}
}

func partBucket(n int) string {
	switch {
	case n == 0:
		return "0"
	case n == 1:
		return "1"
	case n <= 3:
		return "2-3"
	case n <= 15:
		return "4-15"
	case n <= 63:
		return "16-63"
	case n <= 199:
		return "64-199"
	case n <= 999:
		return "200-999"
	default:
		return "1000+"
	}
}

type layout struct {
	dataBlocks  int
	nfilters    int
	empty       int
	baseLg      int
	emptyPrefix []int // emptyPrefix[p] = number of empty partitions with index < p
}

// parseLayout reads the filter block out of the recorded writes (coverage only; nil if the
// shape is not the expected one).
func parseLayout(rec *recWriter, withPolicy bool) *layout {
	tail := 3 // metaindex, index, footer
	if withPolicy {
		tail = 4
	}
	if len(rec.starts) < tail+1 {
		return nil
	}
	l := &layout{dataBlocks: len(rec.starts) - tail}
	if !withPolicy {
		return l
	}
	fi := len(rec.starts) - 4
	all := rec.buf.Bytes()
	if rec.lens[fi] < 5+5 {
		return nil
	}
	blk := all[rec.starts[fi] : rec.starts[fi]+rec.lens[fi]-5]
	n := len(blk)
	l.baseLg = int(blk[n-1])
	oo := int(binary.LittleEndian.Uint32(blk[n-5:]))
	if oo > n-5 || (n-5-oo)%4 != 0 {
		return nil
	}
	l.nfilters = (n - 5 - oo) / 4
	l.emptyPrefix = make([]int, l.nfilters+1)
	for p := 0; p < l.nfilters; p++ {
		a := binary.LittleEndian.Uint32(blk[oo+4*p:])
		b := binary.LittleEndian.Uint32(blk[oo+4*p+4:])
		l.emptyPrefix[p+1] = l.emptyPrefix[p]
		if a == b {
			l.empty++
			l.emptyPrefix[p+1]++
		}
	}
	return l
}

// ---------------------------------------------------------------------------------------
// family 3: db

type setting struct {
	name string
	f    filter.Filter
	alts []filter.Filter
}

func dbCase(c *wk.Ctx, i int, r0 *rand.Rand) {
	seed := r0.Int63()
	ownName := r0.Intn(2) == 0 // the fourth setting uses a policy with its own name and encoding
	st := &fstats{}
	mkSettings := func() []setting {
		b1 := counting{filter.NewBloomFilter(1), st}
		b10 := counting{filter.NewBloomFilter(10), st}
		b16 := counting{filter.NewBloomFilter(16), st}
		if !ownName {
			return []setting{
				{"nil", nil, nil},
				{"bloom1", b1, nil},
				{"bloom10", b10, nil},
				{"bloom16+alt", b16, []filter.Filter{b1, b10}},
			}
		}
		own := counting{masked{filter.NewBloomFilter(16), "verif.c16.own", 0x03}, st} // mask < 32, see tableCase
		return []setting{
			{"nil", nil, nil},
			{"bloom1", b1, nil},
			{"bloom10+alt(own)", b10, []filter.Filter{own}},
			{"own16+alt(bloom)", own, []filter.Filter{b1, b10}},
		}
	}
	type outcome struct {
		dump  []model.KV
		mdump []model.KV
		done  bool
	}
	var outs [4]outcome
	var desc map[string]interface{}
	var totalStats = map[string]int64{}
	failed := false
	for j := 0; j < 4 && !failed; j++ {
		r := rand.New(rand.NewSource(seed))
		os := model.RandomOptions(r, model.OptConstraints{})
		nkeys := 200 + r.Intn(800)
		nops := 300 + r.Intn(c.Pick(900, 1500))
		if os.O.WriteL0SlowdownTrigger <= 2 {
			nops = 300 + r.Intn(400)
		}
		settings := mkSettings()
		cur := j
		os.O.Filter, os.O.AltFilters = settings[cur].f, settings[cur].alts
		os.Desc["Filter"] = "rotating, first " + settings[cur].name
		desc = os.Desc
		c.Begin(i, fmt.Sprintf("db replay=%d own=%v opts=%v nkeys=%d nops=%d", j, ownName, os.Desc, nkeys, nops))
		rot := rand.New(rand.NewSource(seed ^ int64(0x5bd1e995*(j+1))))
		var mm error
		var ru *dbx.Runner
		panicked := c.Guard(i, "C16 db program", func() {
			var err error
			ru, err = dbx.NewRunner(r, os, nkeys, false)
			if err != nil {
				mm = fmt.Errorf("open of a fresh storage failed: %v", err)
				return
			}
			ru.ReopenOpts = func(o *opt.Options) *opt.Options {
				nxt := (cur + 1 + rot.Intn(3)) % 4
				c.Count("db_reopen_pair:"+settings[cur].name+"_to_"+settings[nxt].name, 1)
				c.Distinct("db_filter_pairs", settings[cur].name+"_to_"+settings[nxt].name)
				cur = nxt
				o.Filter, o.AltFilters = settings[cur].f, settings[cur].alts
				return o
			}
			// Snapshots taken on the way keep overwritten versions alive through flushes and compactions (several
			// versions of one user key in one table, across block and filter-partition boundaries); their reads go
			// through the filters too and must not lose a version that the snapshot can see.
			type snapView struct {
				s  *leveldb.Snapshot
				m  *model.Map
				at int
			}
			var snaps []snapView
			sr := rand.New(rand.NewSource(seed ^ 0x736e6170))
			checkSnaps := func() error {
				for _, sv := range snaps {
					for q := 0; q < 80; q++ {
						k := ru.Keys.Pick(sr)
						want, live := sv.m.Get(k)
						got, err := sv.s.Get(k, nil)
						if live && (err != nil || !bytes.Equal(got, want)) || !live && err != leveldb.ErrNotFound {
							return &dbx.Mismatch{OpIndex: ru.NOps, What: fmt.Sprintf("Snapshot.Get (snapshot taken at op %d) differs from the frozen model", sv.at), Key: dbx.Hex(k), Got: fmt.Sprintf("%s err=%v", dbx.Hex(got), err), Want: fmt.Sprintf("%s live=%v", dbx.Hex(want), live), Opts: os.Desc, Trace: ru.Trace}
						}
						has, herr := sv.s.Has(k, nil)
						if herr != nil || has != live {
							return &dbx.Mismatch{OpIndex: ru.NOps, What: fmt.Sprintf("Snapshot.Has (snapshot taken at op %d) = %v err=%v, frozen model live=%v", sv.at, has, herr, live), Key: dbx.Hex(k), Opts: os.Desc, Trace: ru.Trace}
						}
						c.Count("db_snapshot_reads", 1)
					}
					sv.s.Release()
				}
				snaps = nil
				return nil
			}
			defer func() {
				for _, sv := range snaps {
					sv.s.Release()
				}
			}()
			// snapshots do not survive a Close: judge and release them right before every one (Step reopens now and then)
			var snapErr error
			ru.OnClosing = func() {
				if err := checkSnaps(); err != nil && snapErr == nil {
					snapErr = err
				}
			}
			for n := 0; n < nops; n++ {
				if mm = ru.Step(); mm != nil {
					return
				}
				if snapErr != nil {
					mm = snapErr
					return
				}
				if sr.Intn(nops/8+1) == 0 && len(snaps) < 5 {
					if sn, err := ru.DB.GetSnapshot(); err == nil {
						snaps = append(snaps, snapView{sn, ru.M.Clone(), ru.NOps})
					}
				}
				if n == nops/3 || n == 2*nops/3 {
					if mm = ru.Reopen(); mm != nil {
						return
					}
					if snapErr != nil {
						mm = snapErr
						return
					}
					if mm = ru.Sweep(); mm != nil {
						return
					}
				}
			}
			if mm = ru.Sweep(); mm != nil {
				return
			}
			if mm = ru.Reopen(); mm != nil {
				return
			}
			if snapErr != nil {
				mm = snapErr
				return
			}
			if mm = ru.Sweep(); mm != nil {
				return
			}
			// final full iteration
			it := ru.DB.NewIterator(nil, nil)
			var dump []model.KV
			for it.Next() {
				dump = append(dump, model.KV{K: append([]byte{}, it.Key()...), V: append([]byte{}, it.Value()...)})
			}
			ierr := it.Error()
			it.Release()
			want := ru.M.Range(nil, nil)
			if ierr != nil {
				mm = &dbx.Mismatch{OpIndex: ru.NOps, What: "final iteration returned an error", Got: ierr.Error(), Opts: os.Desc, Trace: ru.Trace}
				return
			}
			if d := diffDump(dump, want); d != "" {
				mm = &dbx.Mismatch{OpIndex: ru.NOps, What: "final iteration differs from the model", Got: d, Opts: os.Desc, Trace: ru.Trace}
				return
			}
			outs[j] = outcome{dump: dump, mdump: want, done: true}
		})
		c.Eval()
		if ru != nil {
			for k, v := range ru.Stats {
				totalStats[k] += v
			}
			c.Count("db_memdb_flushes", int64(ru.LogContains("memdb@flush committed")))
			c.Count("db_table_compactions", int64(ru.LogContains("table@compaction committed")))
		}
		if mm != nil {
			failed = true
			if m, ok := mm.(*dbx.Mismatch); ok {
				if m.Opts == nil {
					m.Opts = os.Desc
				}
				c.Violation(i, "db-differs-from-model", fmt.Sprintf("replay %d (filter settings rotating, own-name policy=%v, now %s): %s", j, ownName, settings[cur].name, m.Error()),
					map[string]interface{}{"mismatch": m, "replay": j, "own_name_policy": ownName, "current_setting": settings[cur].name})
			} else {
				c.Violation(i, "db-open-failed", mm.Error(), map[string]interface{}{"options": os.Desc, "replay": j})
			}
		}
		if ru != nil && !panicked {
			c.Guard(i, "Close", func() { ru.Close() })
		}
		if panicked {
			failed = true
		}
		if !failed {
			c.Count("db_programs_replayed", 1)
			c.Count("db_programs_replayed:starting_with="+settings[j].name, 1)
		}
	}
	for k, v := range totalStats {
		c.Count("db_"+k, v)
	}
	c.Count("db_filters_built", atomic.LoadInt64(&st.built))
	c.Count("db_keys_added_to_filters", atomic.LoadInt64(&st.adds))
	c.Count("db_filter_membership_queries", atomic.LoadInt64(&st.calls))
	c.Count("db_lookups_cut_short_by_filter", atomic.LoadInt64(&st.calls)-atomic.LoadInt64(&st.trues))
	if failed {
		return
	}
	c.Count("db_cases", 1)
	// the four replays ran the same program: same model, same final contents
	for j := 1; j < 4; j++ {
		if d := diffDump(outs[j].mdump, outs[0].mdump); d != "" {
			// the program did not replay identically: a defect of the harness, not a verdict
			c.Inconclusive("db-program-not-deterministic")
			return
		}
		if d := diffDump(outs[j].dump, outs[0].dump); d != "" {
			c.Violation(i, "db-dumps-differ-between-filter-settings", fmt.Sprintf("final iteration of replay %d differs from replay 0: %s", j, d),
				map[string]interface{}{"options": desc, "replay": j, "own_name_policy": ownName})
			return
		}
	}
	c.Count("db_dump_comparisons", 3)
	c.Count("db_final_dump_entries", int64(len(outs[0].dump)))
	if atomic.LoadInt64(&st.calls) > 0 {
		c.Nontrivial(fmt.Sprintf("case-%d", i))
		c.Count("nontrivial_db", 1)
	}
	if c.WantSample() && i%16 == 1 {
		c.Sample(map[string]interface{}{"case": i, "family": "db", "options": desc, "own_name_policy": ownName,
			"filter_membership_queries": atomic.LoadInt64(&st.calls), "filters_built": atomic.LoadInt64(&st.built),
			"final_entries": len(outs[0].dump), "stats_over_4_replays": totalStats})
	}
}

// diffDump describes the first difference between two dumps ("" if equal).
func diffDump(got, want []model.KV) string {
	for x := 0; x < len(got) && x < len(want); x++ {
		if !bytes.Equal(got[x].K, want[x].K) {
			return fmt.Sprintf("entry %d: key %s, expected key %s", x, hx(got[x].K), hx(want[x].K))
		}
		if !bytes.Equal(got[x].V, want[x].V) {
			return fmt.Sprintf("entry %d (key %s): value %s, expected %s", x, hx(got[x].K), hx(got[x].V), hx(want[x].V))
		}
	}
	if len(got) != len(want) {
		return fmt.Sprintf("%d entries, expected %d", len(got), len(want))
	}
	return ""
}
