// Worker for C05: concurrent use is linearizable; readers see consistent cuts.
// Mode "cuts": long runs with O(n) online cut checkers (torn batches, per-client
// chains, per-reader monotonicity, real-time visibility). Mode "porcupine": many
// short histories checked against a full-state sequential model, and long per-key
// register histories. Yield hooks stretch the reader/writer windows.
package main

import (
	"encoding/binary"
	"fmt"
	"math/rand"
	"runtime"
	"sort"
	"strings"
	"sync"
	"sync/atomic"
	"time"

	"github.com/anishathalye/porcupine"
	"github.com/syndtr/goleveldb/leveldb"
	"github.com/syndtr/goleveldb/leveldb/opt"
	"github.com/syndtr/goleveldb/leveldb/util"

	"verif/model"
	"verif/vstor"
	"verif/wk"
)

func main() { wk.Main("C05", run) }

// ---- hook plumbing

var (
	hookMode        int32 // 0 off, 1 random yields, 2 random yields + directed holds
	versions        int64 // version installations
	flushCommits    int64 // memdb flush commits (from the DB log)
	tableCommits    int64 // table compaction commits (from the DB log)
	publishes       int64 // sequence publications
	hookRand        uint64
	windowsOpen     int64
	winVersion      int64 // reader windows during which >= 1 version was installed
	winFlush        int64 // reader windows during which >= 1 flush committed (buffer rotation + frozen drop)
	winPublish      int64
	heldReaders     int64
	heldReadersLong int64
	heldWriters     int64
	winStart        sync.Map // goid-free: keyed by a per-goroutine token passed through TLS-less trick (see below)
)

func rnd() uint64 {
	x := atomic.AddUint64(&hookRand, 0x9E3779B97F4A7C15)
	x ^= x >> 30
	x *= 0xBF58476D1CE4E5B9
	x ^= x >> 27
	return x
}

type winSnap struct{ v, f, p int64 }

// Reader windows are measured by the client itself (it samples the counters before
// and after each read call); the hooks only stretch the windows.
func yieldHook(p int) {
	m := atomic.LoadInt32(&hookMode)
	if m == 0 {
		return
	}
	x := rnd()
	switch {
	case x%4 == 0:
		runtime.Gosched()
	case x%64 == 1:
		time.Sleep(20 * time.Microsecond)
	}
	if m < 2 {
		return
	}
	// directed holds: keep a reader inside its acquisition window until a flush has
	// committed (rotation + version installation + frozen-buffer drop), or a writer
	// between insertion and publication while readers run. Bounded by a real-time cap
	// that only limits the wait, it decides nothing.
	switch p {
	case leveldb.VerifYGetSeq, leveldb.VerifYGetMems, leveldb.VerifYIterSeq, leveldb.VerifYIterMems:
		if x%16 == 2 {
			f0 := atomic.LoadInt64(&flushCommits)
			atomic.AddInt64(&heldReaders, 1)
			for i := 0; i < 200 && atomic.LoadInt64(&flushCommits) == f0; i++ {
				time.Sleep(50 * time.Microsecond)
			}
		} else if x%16 == 5 {
			// longer hold: until a table compaction has committed (entries below the oldest
			// registered snapshot may be dropped by it)
			t0 := atomic.LoadInt64(&tableCommits)
			atomic.AddInt64(&heldReadersLong, 1)
			for i := 0; i < 400 && atomic.LoadInt64(&tableCommits) == t0; i++ {
				time.Sleep(50 * time.Microsecond)
			}
		}
	case leveldb.VerifYWriteInserted, leveldb.VerifYTrCommitted, leveldb.VerifYFlushCommitted:
		if x%8 == 3 {
			atomic.AddInt64(&heldWriters, 1)
			time.Sleep(200 * time.Microsecond)
		}
	}
}

func eventHook(k int, a, b, c uint64) {
	switch k {
	case leveldb.VerifEVersion:
		atomic.AddInt64(&versions, 1)
	case leveldb.VerifEPublish:
		atomic.AddInt64(&publishes, 1)
	}
}

func run(c *wk.Ctx) {
	leveldb.SetVerifHooks(yieldHook, eventHook)
	n := c.Pick(96, 1200)
	if c.Race {
		n = c.Pick(32, 160)
	}
	for i := 0; i < n; i++ {
		if !c.Mine(i) {
			continue
		}
		if i%3 == 2 {
			porcupineCase(c, i)
		} else {
			cutsCase(c, i)
		}
	}
}

func concOptions(r *rand.Rand) model.OptSet {
	os := model.RandomOptions(r, model.OptConstraints{DefaultComparer: true, NoTinyManifest: r.Intn(2) == 0})
	os.O.WriteBuffer = []int{512, 1 << 10, 2 << 10, 4 << 10}[r.Intn(4)]
	os.Desc["WriteBuffer"] = os.O.WriteBuffer
	return os
}

func openDB(r *rand.Rand, os model.OptSet) (*leveldb.DB, *vstor.Stor, error) {
	st := vstor.New(false)
	st.SetKeepLogs(false)
	st.OnLog = func(l string) {
		if strings.HasPrefix(l, "memdb@flush committed") {
			atomic.AddInt64(&flushCommits, 1)
		} else if strings.HasPrefix(l, "table@compaction committed") {
			atomic.AddInt64(&tableCommits, 1)
		}
	}
	db, err := leveldb.Open(st, os.Clone())
	return db, st, err
}

// ---- mode "cuts"

func enc(tag uint64, pad int) []byte {
	b := make([]byte, 8+pad)
	binary.BigEndian.PutUint64(b, tag)
	for i := 8; i < len(b); i++ {
		b[i] = 'x'
	}
	return b
}
func dec(b []byte) uint64 {
	if len(b) < 8 {
		return 0
	}
	return binary.BigEndian.Uint64(b)
}

func cutsCase(c *wk.Ctx, i int) {
	r := c.Rand(i)
	os := concOptions(r)
	mode := int32((i / 3) % 3) // 0: hooks off, 1: random yields, 2: yields + directed holds
	gmp := []int{2, 4, 16}[r.Intn(3)]
	nw := 2 + r.Intn(5)
	nr := 2 + r.Intn(6)
	ngroups := 1 + r.Intn(2)
	gsize := 2 + r.Intn(4)
	dur := c.Pick(1500, 4000) // writer operations per writer
	if c.Race {
		dur /= 3
	}
	c.Begin(i, fmt.Sprintf("cuts mode=%d gomaxprocs=%d writers=%d readers=%d opts=%v", mode, gmp, nw, nr, os.Desc))
	old := runtime.GOMAXPROCS(gmp)
	defer runtime.GOMAXPROCS(old)
	db, _, err := openDB(r, os)
	if err != nil {
		c.Violation(i, "open-failed", err.Error(), nil)
		return
	}
	atomic.StoreInt32(&hookMode, mode)
	defer atomic.StoreInt32(&hookMode, 0)
	var (
		failed int32
		wg     sync.WaitGroup
		stop   int32
		acked  = make([]int64, nw) // last acknowledged counter per writer
		tagSeq uint64
	)
	fail := func(sig, msg string, w map[string]interface{}) {
		if atomic.CompareAndSwapInt32(&failed, 0, 1) {
			if w == nil {
				w = map[string]interface{}{}
			}
			w["options"], w["hook_mode"], w["gomaxprocs"] = os.Desc, mode, gmp
			c.Violation(i, sig, msg, w)
		}
	}
	gkey := func(g, j int) []byte { return []byte(fmt.Sprintf("g%d/%d", g, j)) }
	akey := func(w int) []byte { return []byte(fmt.Sprintf("w%d/a", w)) }
	bkey := func(w int) []byte { return []byte(fmt.Sprintf("w%d/b", w)) }
	var ops int64
	for w := 0; w < nw; w++ {
		w := w
		rr := rand.New(rand.NewSource(r.Int63()))
		wg.Add(1)
		go func() {
			defer wg.Done()
			defer func() {
				if x := recover(); x != nil {
					fail("panic:writer", fmt.Sprintf("writer panicked: %v", x), nil)
				}
			}()
			for n := int64(1); n <= int64(dur) && atomic.LoadInt32(&failed) == 0; n++ {
				wo := &opt.WriteOptions{NoWriteMerge: rr.Intn(4) == 0, Sync: rr.Intn(16) == 0}
				// chain: A := n, then B := n (two separate writes)
				if err := db.Put(akey(w), enc(uint64(n), rr.Intn(40)), wo); err != nil {
					fail("unexpected-error", "Put: "+err.Error(), nil)
					return
				}
				if err := db.Put(bkey(w), enc(uint64(n), rr.Intn(40)), wo); err != nil {
					fail("unexpected-error", "Put: "+err.Error(), nil)
					return
				}
				atomic.StoreInt64(&acked[w], n)
				// group batch: rewrite every key of one group with one fresh tag
				g := rr.Intn(ngroups)
				tag := atomic.AddUint64(&tagSeq, 1)
				b := new(leveldb.Batch)
				pad := rr.Intn(60)
				if rr.Intn(40) == 0 {
					pad = os.O.GetWriteBuffer() // oversized: goes through the transaction path
				}
				for j := 0; j < gsize; j++ {
					b.Put(gkey(g, j), enc(tag, pad))
				}
				var err error
				if rr.Intn(25) == 0 {
					// explicit transaction
					var tr *leveldb.Transaction
					if tr, err = db.OpenTransaction(); err == nil {
						if err = tr.Write(b, nil); err == nil {
							err = tr.Commit()
						} else {
							tr.Discard()
						}
					}
				} else {
					err = db.Write(b, wo)
				}
				if err != nil {
					fail("unexpected-error", "Write: "+err.Error(), nil)
					return
				}
				atomic.AddInt64(&ops, 3)
				if rr.Intn(300) == 0 {
					db.CompactRange(util.Range{})
				}
			}
		}()
	}
	var rwg sync.WaitGroup
	for q := 0; q < nr; q++ {
		rr := rand.New(rand.NewSource(r.Int63()))
		rwg.Add(1)
		go func() {
			defer rwg.Done()
			defer func() {
				if x := recover(); x != nil {
					fail("panic:reader", fmt.Sprintf("reader panicked: %v", x), nil)
				}
			}()
			lastA := make([]uint64, nw)
			lastB := make([]uint64, nw)
			lastG := make([]uint64, ngroups)
			for atomic.LoadInt32(&stop) == 0 && atomic.LoadInt32(&failed) == 0 {
				v0, f0, p0 := atomic.LoadInt64(&versions), atomic.LoadInt64(&flushCommits), atomic.LoadInt64(&publishes)
				switch rr.Intn(5) {
				case 0, 1:
					// plain Get: real-time visibility + per-reader monotonicity
					w := rr.Intn(nw)
					floor := uint64(atomic.LoadInt64(&acked[w])) // loaded BEFORE the call is invoked
					useB := rr.Intn(2) == 0
					key := akey(w)
					if useB {
						key = bkey(w)
					}
					if rr.Intn(3) == 0 {
						// Has of a key that exists once its first write was acknowledged
						has, err := db.Has(key, nil)
						if err != nil {
							fail("unexpected-error", "Has: "+err.Error(), nil)
							return
						}
						if floor >= 1 && !has {
							fail("stale-read", fmt.Sprintf("Has(%s) = false although write %d to it had returned before Has was invoked (the key is never deleted)", key, floor), nil)
							return
						}
						c.Count("has_calls_checked", 1)
						break
					}
					v, err := db.Get(key, nil)
					got := uint64(0)
					if err == nil {
						got = dec(v)
					} else if err != leveldb.ErrNotFound {
						fail("unexpected-error", "Get: "+err.Error(), nil)
						return
					}
					if got < floor {
						fail("stale-read", fmt.Sprintf("Get(%s) returned counter %d although write %d had returned before the Get was invoked", key, got, floor), nil)
						return
					}
					last := &lastA[w]
					if useB {
						last = &lastB[w]
					}
					if got < *last {
						fail("non-monotonic-read", fmt.Sprintf("one reader saw %s go backwards: %d after %d", key, got, *last), nil)
						return
					}
					*last = got
					c.Count("point_reads_checked", 1)
				case 2, 3:
					// snapshot: consistent cut
					floors := make([]uint64, nw)
					for w := range floors {
						floors[w] = uint64(atomic.LoadInt64(&acked[w]))
					}
					s, err := db.GetSnapshot()
					if err != nil {
						fail("unexpected-error", "GetSnapshot: "+err.Error(), nil)
						return
					}
					get := func(k []byte) uint64 {
						v, err := s.Get(k, nil)
						if err != nil {
							return 0
						}
						return dec(v)
					}
					for w := 0; w < nw; w++ {
						b, a := get(bkey(w)), get(akey(w)) // B first, then A, both through one snapshot
						if a < b {
							s.Release()
							fail("inconsistent-cut", fmt.Sprintf("snapshot shows writer %d's later write B=%d without its earlier write A=%d", w, b, a), nil)
							return
						}
						if a < floors[w] {
							s.Release()
							fail("stale-read", fmt.Sprintf("snapshot taken after write %d of writer %d returned shows A=%d", floors[w], w, a), nil)
							return
						}
					}
					for g := 0; g < ngroups; g++ {
						t0 := get(gkey(g, 0))
						for j := 1; j < gsize; j++ {
							if t := get(gkey(g, j)); t != t0 {
								s.Release()
								fail("torn-batch", fmt.Sprintf("snapshot sees group %d with tags %d and %d: part of a batch", g, t0, t), nil)
								return
							}
						}
						if t0 < lastG[g] && false {
							_ = t0 // tags of different writers are not ordered; no monotonicity claim here
						}
					}
					s.Release()
					c.Count("snapshot_cuts_checked", 1)
				default:
					// iterator scan: one instant
					floors := make([]uint64, nw)
					for w := range floors {
						floors[w] = uint64(atomic.LoadInt64(&acked[w]))
					}
					it := db.NewIterator(nil, nil)
					seen := map[string]uint64{}
					for it.Next() {
						seen[string(it.Key())] = dec(it.Value())
					}
					ierr := it.Error()
					it.Release()
					if ierr != nil {
						fail("unexpected-error", "iterator: "+ierr.Error(), nil)
						return
					}
					for w := 0; w < nw; w++ {
						a, b := seen[string(akey(w))], seen[string(bkey(w))]
						if a < b {
							fail("inconsistent-cut", fmt.Sprintf("iterator shows writer %d's B=%d without A=%d", w, b, a), nil)
							return
						}
						if a < floors[w] {
							fail("stale-read", fmt.Sprintf("iterator created after write %d of writer %d returned shows A=%d", floors[w], w, a), nil)
							return
						}
					}
					for g := 0; g < ngroups; g++ {
						t0 := seen[string(gkey(g, 0))]
						for j := 1; j < gsize; j++ {
							if t := seen[string(gkey(g, j))]; t != t0 {
								fail("torn-batch", fmt.Sprintf("iterator sees group %d with tags %d and %d: part of a batch", g, t0, t), nil)
								return
							}
						}
					}
					c.Count("iterator_cuts_checked", 1)
				}
				atomic.AddInt64(&windowsOpen, 1)
				if atomic.LoadInt64(&versions) != v0 {
					atomic.AddInt64(&winVersion, 1)
				}
				if atomic.LoadInt64(&flushCommits) != f0 {
					atomic.AddInt64(&winFlush, 1)
				}
				if atomic.LoadInt64(&publishes) != p0 {
					atomic.AddInt64(&winPublish, 1)
				}
			}
		}()
	}
	wg.Wait()
	atomic.StoreInt32(&stop, 1)
	rwg.Wait()
	atomic.StoreInt32(&hookMode, 0)
	db.Close()
	c.Eval()
	c.Count("cuts_cases", 1)
	c.Count(fmt.Sprintf("cuts_cases_hookmode_%d", mode), 1)
	c.Count(fmt.Sprintf("gomaxprocs_%d", gmp), 1)
	c.Count("writer_ops", atomic.LoadInt64(&ops))
	c.Count("reader_calls", atomic.SwapInt64(&windowsOpen, 0))
	c.Count("reader_calls_overlapping_a_version_installation", atomic.SwapInt64(&winVersion, 0))
	c.Count("reader_calls_overlapping_a_flush_commit", atomic.SwapInt64(&winFlush, 0))
	c.Count("reader_calls_overlapping_a_sequence_publication", atomic.SwapInt64(&winPublish, 0))
	c.Count("readers_held_in_acquisition_window", atomic.SwapInt64(&heldReaders, 0))
	c.Count("readers_held_until_a_table_compaction_committed", atomic.SwapInt64(&heldReadersLong, 0))
	c.Count("writers_held_between_insert_and_publish_or_commit_and_drop", atomic.SwapInt64(&heldWriters, 0))
	if atomic.LoadInt32(&failed) == 0 {
		c.Nontrivial(fmt.Sprintf("case-%d", i))
		if c.WantSample() {
			c.Sample(map[string]interface{}{"case": i, "mode": "cuts", "hook_mode": mode, "gomaxprocs": gmp, "writers": nw, "readers": nr, "groups": ngroups, "group_size": gsize, "options": os.Desc})
		}
	}
}

// ---- mode "porcupine"

type pin struct {
	Kind  string // write | get | scan
	K     string
	Batch []kv
}
type kv struct {
	K, V string
	Del  bool
}

func stateStr(m map[string]string) string {
	ks := make([]string, 0, len(m))
	for k := range m {
		ks = append(ks, k)
	}
	sort.Strings(ks)
	var sb strings.Builder
	for _, k := range ks {
		sb.WriteString(k)
		sb.WriteByte('=')
		sb.WriteString(m[k])
		sb.WriteByte(';')
	}
	return sb.String()
}

func parseState(s string) map[string]string {
	m := map[string]string{}
	for _, p := range strings.Split(s, ";") {
		if p == "" {
			continue
		}
		i := strings.IndexByte(p, '=')
		m[p[:i]] = p[i+1:]
	}
	return m
}

var fullModel = porcupine.Model{
	Init: func() interface{} { return "" },
	Step: func(st, in, out interface{}) (bool, interface{}) {
		s := st.(string)
		i := in.(pin)
		switch i.Kind {
		case "write":
			m := parseState(s)
			for _, e := range i.Batch {
				if e.Del {
					delete(m, e.K)
				} else {
					m[e.K] = e.V
				}
			}
			return true, stateStr(m)
		case "get":
			m := parseState(s)
			return m[i.K] == out.(string), s
		default:
			return s == out.(string), s
		}
	},
	Equal: func(a, b interface{}) bool { return a.(string) == b.(string) },
	DescribeOperation: func(in, out interface{}) string {
		i := in.(pin)
		return fmt.Sprintf("%s %s %v -> %v", i.Kind, i.K, i.Batch, out)
	},
}

func porcupineCase(c *wk.Ctx, i int) {
	r := c.Rand(i)
	os := concOptions(r)
	mode := int32((i / 3) % 3)
	gmp := []int{2, 4, 16}[r.Intn(3)]
	old := runtime.GOMAXPROCS(gmp)
	defer runtime.GOMAXPROCS(old)
	c.Begin(i, fmt.Sprintf("porcupine mode=%d gomaxprocs=%d opts=%v", mode, gmp, os.Desc))
	db, _, err := openDB(r, os)
	if err != nil {
		c.Violation(i, "open-failed", err.Error(), nil)
		return
	}
	defer db.Close()
	atomic.StoreInt32(&hookMode, mode)
	defer atomic.StoreInt32(&hookMode, 0)
	nh := c.Pick(25, 60)
	if c.Race {
		nh = 8
	}
	var clock int64
	epoch := 0
	for h := 0; h < nh; h++ {
		epoch++
		nkeys := 2 + r.Intn(5)
		nclients := 4 + r.Intn(5)
		per := 15 + r.Intn(15)
		// fresh key names per history so that earlier histories do not matter
		key := func(j int) string { return fmt.Sprintf("h%d/k%d", epoch, j) }
		pad := func(rr *rand.Rand) string {
			if rr.Intn(6) == 0 {
				return strings.Repeat("p", 200+rr.Intn(600))
			}
			return ""
		}
		var mu sync.Mutex
		var hist []porcupine.Operation
		var wg sync.WaitGroup
		var bad int32
		for cl := 0; cl < nclients; cl++ {
			cl := cl
			rr := rand.New(rand.NewSource(r.Int63()))
			wg.Add(1)
			go func() {
				defer wg.Done()
				defer func() {
					if x := recover(); x != nil {
						atomic.StoreInt32(&bad, 1)
						c.Violation(i, "panic:porcupine-client", fmt.Sprintf("client panicked: %v", x), map[string]interface{}{"options": os.Desc})
					}
				}()
				for n := 0; n < per; n++ {
					var in pin
					var out interface{}
					t0 := atomic.AddInt64(&clock, 1)
					switch x := rr.Intn(10); {
					case x < 4:
						nb := 1 + rr.Intn(3)
						b := new(leveldb.Batch)
						in = pin{Kind: "write"}
						for j := 0; j < nb; j++ {
							k := key(rr.Intn(nkeys))
							if rr.Intn(5) == 0 {
								b.Delete([]byte(k))
								in.Batch = append(in.Batch, kv{K: k, Del: true})
							} else {
								v := fmt.Sprintf("c%d.%d.%d%s", cl, n, j, pad(rr))
								b.Put([]byte(k), []byte(v))
								in.Batch = append(in.Batch, kv{K: k, V: v})
							}
						}
						var err error
						if rr.Intn(8) == 0 {
							var tr *leveldb.Transaction
							if tr, err = db.OpenTransaction(); err == nil {
								if err = tr.Write(b, nil); err == nil {
									err = tr.Commit()
								} else {
									tr.Discard()
								}
							}
						} else {
							err = db.Write(b, &opt.WriteOptions{NoWriteMerge: rr.Intn(3) == 0})
						}
						if err != nil {
							atomic.StoreInt32(&bad, 1)
							c.Violation(i, "unexpected-error", "write failed without faults: "+err.Error(), map[string]interface{}{"options": os.Desc})
							return
						}
						out = "ok"
					case x < 8:
						k := key(rr.Intn(nkeys))
						in = pin{Kind: "get", K: k}
						v, err := db.Get([]byte(k), nil)
						if err != nil && err != leveldb.ErrNotFound {
							atomic.StoreInt32(&bad, 1)
							c.Violation(i, "unexpected-error", "Get failed without faults: "+err.Error(), map[string]interface{}{"options": os.Desc})
							return
						}
						out = string(v)
					default:
						in = pin{Kind: "scan"}
						m := map[string]string{}
						pre := fmt.Sprintf("h%d/", epoch)
						rg := util.BytesPrefix([]byte(pre))
						if rr.Intn(2) == 0 {
							it := db.NewIterator(rg, nil)
							for it.Next() {
								m[string(it.Key())] = string(it.Value())
							}
							it.Release()
						} else {
							s, err := db.GetSnapshot()
							if err == nil {
								for j := 0; j < nkeys; j++ {
									if v, err := s.Get([]byte(key(j)), nil); err == nil {
										m[key(j)] = string(v)
									}
								}
								s.Release()
							}
						}
						out = stateStr(m)
					}
					t1 := atomic.AddInt64(&clock, 1)
					mu.Lock()
					hist = append(hist, porcupine.Operation{ClientId: cl, Input: in, Call: t0, Output: out, Return: t1})
					mu.Unlock()
				}
			}()
		}
		wg.Wait()
		if atomic.LoadInt32(&bad) != 0 {
			return
		}
		res, info := porcupine.CheckOperationsVerbose(fullModel, hist, 20*time.Second)
		c.Eval()
		c.Count("porcupine_histories", 1)
		c.Count("porcupine_operations", int64(len(hist)))
		switch res {
		case porcupine.Ok:
			c.Count("porcupine_ok", 1)
			c.Nontrivial(fmt.Sprintf("case-%d-h%d", i, h))
		case porcupine.Unknown:
			c.Inconclusive("porcupine time-out")
		default:
			_ = info
			var lines []string
			sort.Slice(hist, func(a, b int) bool { return hist[a].Call < hist[b].Call })
			for _, o := range hist {
				lines = append(lines, fmt.Sprintf("client %d [%d,%d] %s", o.ClientId, o.Call, o.Return, fullModel.DescribeOperation(o.Input, o.Output)))
			}
			c.Violation(i, "not-linearizable", fmt.Sprintf("history %d of the case (%d operations, %d clients, %d keys) has no linearization", h, len(hist), nclients, nkeys),
				map[string]interface{}{"options": os.Desc, "hook_mode": mode, "gomaxprocs": gmp, "history": lines})
			return
		}
		if c.WantSample() && h == 0 {
			var lines []string
			for _, o := range hist[:min(len(hist), 12)] {
				lines = append(lines, fmt.Sprintf("client %d [%d,%d] %s", o.ClientId, o.Call, o.Return, fullModel.DescribeOperation(o.Input, o.Output)))
			}
			c.Sample(map[string]interface{}{"case": i, "mode": "porcupine", "hook_mode": mode, "first_operations": lines, "options": os.Desc})
		}
	}
}
