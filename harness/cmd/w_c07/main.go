// Worker for C07: files are deleted only when unneeded, and then they are deleted.
package main

import (
	"fmt"
	"math/rand"
	"sync"

	"github.com/syndtr/goleveldb/leveldb"
	"github.com/syndtr/goleveldb/leveldb/iterator"
	"github.com/syndtr/goleveldb/leveldb/storage"
	"github.com/syndtr/goleveldb/leveldb/util"

	"verif/dbx"
	"verif/lsm"
	"verif/model"
	"verif/vstor"
	"verif/wk"
)

func main() { wk.Main("C07", run) }

func run(c *wk.Ctx) {
	n := c.Pick(640, 6000)
	for i := 0; i < n; i++ {
		if c.Mine(i) {
			runCase(c, i)
			c.Eval()
		}
	}
}

type held struct {
	it     iterator.Iterator
	list   []model.KV
	tables map[int64]bool // nil = unknown (the version changed while the iterator was being created)
	atVer  int64
	atOp   int
}

func tableSet(vv leveldb.VerifVersion) map[int64]bool {
	m := map[int64]bool{}
	for _, l := range vv.Levels {
		for _, t := range l {
			m[t.Num] = true
		}
	}
	return m
}

func runCase(c *wk.Ctx, i int) {
	r := c.Rand(i)
	os := model.RandomOptions(r, model.OptConstraints{NonInjective: true})
	os.O.OpenFilesCacheCapacity = 1 + r.Intn(4) // evicted readers must be re-opened from storage
	os.O.WriteBuffer = []int{1 << 10, 2 << 10, 4 << 10}[r.Intn(3)]
	os.Desc["OpenFilesCacheCapacity"], os.Desc["WriteBuffer"] = os.O.OpenFilesCacheCapacity, os.O.WriteBuffer
	nkeys := 40 + r.Intn(300)
	nops := 300 + r.Intn(c.Pick(2000, 4000))
	withFaults := i%3 == 2
	longPin := i%4 == 1 // iterators are held from early on to the end: hundreds of version changes behind the pin
	if longPin {
		os.O.WriteBuffer = 1 << 10
		os.Desc["WriteBuffer"] = 1 << 10
		nops = c.Pick(3000, 6000)
	}
	c.Begin(i, fmt.Sprintf("faults=%v opts=%v nkeys=%d nops=%d", withFaults, os.Desc, nkeys, nops))
	wit := map[string]interface{}{"options": os.Desc, "faults": withFaults}
	ru, err := dbx.NewRunner(r, os, nkeys, false)
	if err != nil {
		c.Violation(i, "open-failed", err.Error(), wit)
		return
	}
	st := ru.Stor
	var (
		mu      sync.Mutex
		iters   []*held
		bad     bool
		removed int64
	)
	fail := func(sig, msg string) {
		if !bad {
			bad = true
			lg := st.Logs()
			if len(lg) > 40 {
				lg = lg[len(lg)-40:]
			}
			var ll []string
			for _, l := range lg {
				ll = append(ll, l.Text)
			}
			wit["db_log_tail"] = ll
			c.Violation(i, sig, msg, wit)
		}
	}
	// every removal of a table is checked against what live iterators pinned
	st.OnRemove = func(fd storage.FileDesc, opIdx int64) {
		if fd.Type != storage.TypeTable {
			return
		}
		mu.Lock()
		defer mu.Unlock()
		removed++
		for _, h := range iters {
			if h.tables != nil && h.tables[fd.Num] {
				fail("removed-while-pinned", fmt.Sprintf("table %d is being removed while an unreleased iterator (created at op %d) pins a version that contains it", fd.Num, h.atOp))
			}
		}
	}
	verCount := func() int64 {
		vv, rel, err := leveldb.VerifPinVersion(ru.DB)
		if err != nil {
			return -1
		}
		rel()
		return vv.ID
	}
	releaseAll := func() {
		mu.Lock()
		hs := iters
		iters = nil
		mu.Unlock()
		for _, h := range hs {
			age := verCount() - h.atVer
			c.Max("max_version_changes_behind_a_pinned_iterator", age)
			if age > 256 {
				c.Count("iterators_held_across_more_than_256_version_changes", 1)
			}
			if mm := dbx.FullScan(h.it, h.list); mm != nil && !withFaults {
				fail("pinned-iterator-broken", fmt.Sprintf("iterator created at op %d (%d version changes ago) no longer returns its frozen contents: %s", h.atOp, age, mm.Error()))
			}
			h.it.Release()
			c.Count("pinned_iterators_verified_at_release", 1)
		}
	}
	settleAndAudit := func(when string) {
		if bad || (longPin && when != "end" && when != "after-delete-all") {
			return
		}
		releaseAll()
		if err := leveldb.VerifBarrier(ru.DB); err != nil {
			if withFaults {
				return
			}
			fail("barrier-error", "VerifBarrier: "+err.Error())
			return
		}
		vv, rel, err := leveldb.VerifPinVersion(ru.DB)
		if err != nil {
			return
		}
		_, _, jn, fjn, _ := leveldb.VerifState(ru.DB)
		extra, missing := lsm.LeakAudit(vv, st, jn, fjn, leveldb.VerifManifestNum(ru.DB))
		refs := leveldb.VerifFileRefs(ru.DB)
		rel()
		c.Count("settled_audits", 1)
		c.Count("settled_audits:"+when, 1)
		if len(extra) > 0 || len(missing) > 0 {
			fail("leftover-files:"+when, fmt.Sprintf("%s: storage holds files that nothing needs %v; live tables missing %v", when, extra, missing))
			return
		}
		// the reference loop agrees with the pinned set
		live := tableSet(vv)
		for n := range refs {
			if !live[n] {
				fail("stale-reference:"+when, fmt.Sprintf("%s: the reference loop still counts table %d which no live version holds", when, n))
				return
			}
		}
		c.Count("reference_maps_compared", 1)
	}
	ru.OnClosing = func() { releaseAll() }
	ru.NoReopen = longPin
	ru.AfterOp = func(ru *dbx.Runner, kind string) error {
		if kind == "reopen" {
			// after close and reopen: nothing but live files (settle first: the new incarnation may be compacting)
			settleAndAudit("after-reopen")
		}
		return nil
	}
	c.Guard(i, "C07 case", func() {
		for n := 0; n < nops && !bad; n++ {
			if err := ru.Step(); err != nil {
				if withFaults {
					continue
				}
				fail("program-failed", err.Error())
				return
			}
			switch x := r.Intn(200); {
			case x < 8:
				mu.Lock()
				nheld := len(iters)
				mu.Unlock()
				if nheld >= 30 {
					break
				}
				before, rel, err := leveldb.VerifPinVersion(ru.DB)
				if err != nil {
					break
				}
				rel()
				var rg *util.Range
				if r.Intn(2) == 0 {
					a, b := ru.Keys.Pick(r), ru.Keys.Pick(r)
					if os.O.Comparer.Compare(a, b) > 0 {
						a, b = b, a
					}
					rg = &util.Range{Start: a, Limit: b}
				}
				var list []model.KV
				if rg == nil {
					list = ru.M.Range(nil, nil)
				} else {
					list = ru.M.Range(rg.Start, rg.Limit)
				}
				it := ru.DB.NewIterator(rg, nil)
				after, rel2, err := leveldb.VerifPinVersion(ru.DB)
				h := &held{it: it, list: list, atOp: ru.NOps, atVer: before.ID}
				if err == nil {
					rel2()
					if after.ID == before.ID {
						h.tables = tableSet(before)
						c.Count("iterators_with_known_pinned_table_set", 1)
					} else {
						c.Count("iterators_with_unknown_pinned_table_set", 1)
					}
				}
				mu.Lock()
				iters = append(iters, h)
				mu.Unlock()
			case x < 10:
				// release one iterator in the middle (random order of releases)
				mu.Lock()
				var h *held
				if len(iters) > 0 {
					j := r.Intn(len(iters))
					h = iters[j]
					iters = append(iters[:j], iters[j+1:]...)
				}
				mu.Unlock()
				if h != nil {
					if mm := dbx.FullScan(h.it, h.list); mm != nil && !withFaults {
						fail("pinned-iterator-broken", "iterator created at op "+fmt.Sprint(h.atOp)+": "+mm.Error())
					}
					h.it.Release()
				}
			case x < 12:
				// a discarded transaction with several flushed tables
				tr, err := ru.DB.OpenTransaction()
				if err != nil {
					break
				}
				for j := 0; j < 100+r.Intn(400); j++ {
					tr.Put(ru.Keys.Pick(r), model.Value(8, uint32(n), uint32(j), 20+r.Intn(100)), nil)
				}
				tr.Discard()
				c.Count("discarded_transactions", 1)
				if r.Intn(2) == 0 {
					settleAndAudit("after-discard")
				}
			case x < 13 && withFaults:
				// make compactions fail for a while: their partial outputs must be reverted
				kinds := []vstor.OpKind{vstor.OpWrite, vstor.OpSync, vstor.OpCreate}
				st.AddFault(vstor.Fault{Kind: kinds[r.Intn(3)], Type: storage.TypeTable, Nth: 1, Count: 1 + r.Intn(6)})
				for j := 0; j < 30; j++ {
					ru.Step()
				}
				st.ClearFaults()
				c.Count("fault_episodes", 1)
				// the model may be out of step after failed writes: resynchronise it from the DB
				resync(ru)
				settleAndAudit("after-faults-stopped")
			case x < 14:
				settleAndAudit("mid-run")
			}
		}
		if bad {
			return
		}
		st.ClearFaults()
		settleAndAudit("end")
		if bad {
			return
		}
		// space is given back: delete everything, compact, settle
		size := func() (n int64) {
			for _, f := range st.Files() {
				if f.Fd.Type == storage.TypeTable {
					n += f.Size
				}
			}
			return
		}
		ru.DB.CompactRange(util.Range{})
		leveldb.VerifBarrier(ru.DB)
		before := size()
		it := ru.DB.NewIterator(nil, nil)
		var ks [][]byte
		for it.Next() {
			ks = append(ks, append([]byte{}, it.Key()...))
		}
		ierr := it.Error()
		it.Release()
		skipped := ierr != nil
		for _, k := range ks {
			if err := ru.DB.Delete(k, nil); err != nil {
				skipped = true
			}
			ru.M.Delete(k)
		}
		if err := ru.DB.CompactRange(util.Range{}); err != nil {
			skipped = true
		}
		if err := leveldb.VerifBarrier(ru.DB); err != nil {
			skipped = true
		}
		if skipped || len(ks) == 0 {
			if !withFaults && skipped {
				fail("program-failed", "delete-all / full compaction failed without faults")
			}
			c.Count("space_reclamation_checks_skipped", 1)
			return
		}
		after := size()
		c.Count("space_reclamation_checks", 1)
		c.Count("table_bytes_before_delete_all", before)
		c.Count("table_bytes_after_delete_all_and_compaction", after)
		if before > 20000 && after*20 > before {
			fail("space-not-reclaimed", fmt.Sprintf("after deleting all %d keys and a full compaction, table files still occupy %d bytes (before: %d)", len(ks), after, before))
			return
		}
		settleAndAudit("after-delete-all")
	})
	mu.Lock()
	c.Count("table_removals_checked", removed)
	mu.Unlock()
	c.Guard(i, "close", func() { ru.Close() })
	c.Count("memdb_flushes", int64(ru.LogContains("memdb@flush committed")))
	c.Count("table_compactions", int64(ru.LogContains("table@compaction committed")))
	c.Count("compaction_reverts", int64(ru.LogContains(" revert @")))
	c.Count("janitor_removals_at_reopen", int64(ru.LogContains("db@janitor removing")))
	if !bad {
		c.Nontrivial(fmt.Sprintf("case-%d", i))
		if c.WantSample() {
			c.Sample(map[string]interface{}{"case": i, "options": os.Desc, "nops": nops, "faults": withFaults, "table_removals_checked": removed})
		}
	}
}

// resync rebuilds the model from the DB after a fault episode (the writes' fates are C08's business).
func resync(ru *dbx.Runner) {
	m := model.NewMap(ru.OS.O.Comparer)
	it := ru.DB.NewIterator(nil, nil)
	for it.Next() {
		m.Put(it.Key(), it.Value())
	}
	it.Release()
	ru.M = m
}

var _ = rand.Int
