package main

// Generation of record sequences (lengths aimed at block-end residues, content
// with ids, trap records) and the driver of the journal Writer under test.

import (
	"encoding/binary"
	"fmt"
	"math/rand"

	"github.com/syndtr/goleveldb/leveldb/journal"
)

// trap describes a record (laid out as one full chunk) whose payload ends with
// an embedded, perfectly valid chunk carrying content that is never written as
// a record. Clearing bit `bit` of the chunk's length field makes the length
// point exactly at the embedded chunk: a reader that keeps parsing the same
// block after the resulting checksum error would yield the embedded content.
type trap struct {
	rec   int
	q     int  // payload offset of the embedded chunk == length after the flip
	bit   uint // bit of the 16-bit length field
	inner []byte
}

type plan struct {
	profile    string
	desc       string
	recs       [][]byte
	kinds      []string
	traps      []trap
	flushMode  string // every | some | none
	flushAfter []bool
	splits     [][]int
	end        string // close | flush | flush+close | reset | close+reset
	flusher    bool   // underlying writer implements Flush
	preUse     int    // 0: fresh Writer; 1..3: Writer reused through Reset after another journal
	pre        *plan
}

type gen struct {
	r     *rand.Rand
	l     *layout
	lens  []int
	kinds []string
	trapQ map[int][2]int // rec -> (q, bit)
}

func newGen(r *rand.Rand) *gen { return &gen{r: r, l: &layout{}, trapQ: map[int][2]int{}} }

func (g *gen) add(L int, kind string) {
	g.lens = append(g.lens, L)
	g.kinds = append(g.kinds, kind)
	g.l.appendRecord(L)
}

// space is the payload room left in the current block for a record started now.
func (g *gen) space() int {
	h := headerPos(g.l.size)
	return blockSize - h%blockSize - headerSize
}

// fit adds a record that ends leaving exactly res bytes (0..9) in its last block.
func (g *gen) fit(res, extraBlocks int) {
	sp := g.space()
	if sp-res < 0 && extraBlocks == 0 {
		extraBlocks = 1
	}
	L := sp - res
	if extraBlocks > 0 {
		L = sp + (extraBlocks-1)*(blockSize-headerSize) + (blockSize - headerSize - res)
	}
	g.add(L, fmt.Sprintf("fit-res%d", res))
}

func (g *gen) small() {
	r := g.r
	switch x := r.Intn(10); {
	case x < 2:
		g.add(0, "len0")
	case x < 3:
		g.add(1, "len1")
	case x < 4:
		g.add(2+r.Intn(2), "len2-3")
	case x < 6:
		g.add(4+r.Intn(5), "len4-8")
	default:
		g.add(9+r.Intn(32), "len9-40")
	}
}

func (g *gen) medium() { g.add(41+g.r.Intn(5000), "medium") }

func (g *gen) nearBlock() {
	g.add(blockSize-headerSize-1+g.r.Intn(3), "blocksize-7+-1")
}

func (g *gen) multiBlock() {
	r := g.r
	k := 2 + r.Intn(2)
	var L int
	switch r.Intn(4) {
	case 0:
		L = k*(blockSize-headerSize) - 1 + r.Intn(3)
	case 1:
		L = k * blockSize
	case 2:
		L = k*blockSize - 8 + r.Intn(17)
	default:
		L = blockSize + r.Intn(2*blockSize)
	}
	g.add(L, "multi-block")
}

func (g *gen) trapRec() {
	r := g.r
	bit := uint(5 + r.Intn(7)) // embedded chunk of 32..2048 bytes
	q := r.Intn(3000) &^ (1 << bit)
	L := q | 1<<bit
	if L > g.space() {
		// would not be a single chunk here: start a new block first (a record that
		// exactly fills the block), the trap then sits at the head of the next block.
		g.fit(0, 0)
	}
	g.trapQ[len(g.lens)] = [2]int{q, int(bit)}
	g.add(L, "trap")
}

func (g *gen) fillBlockTo(thr int) {
	for g.l.size%blockSize < thr && g.space() > 6000 {
		if g.r.Intn(3) == 0 {
			g.medium()
		} else {
			g.small()
		}
	}
}

// genLengths produces the record-length sequence of one journal.
func genLengths(r *rand.Rand, profile string, p1, p2 int) *gen {
	g := newGen(r)
	switch profile {
	case "residue":
		// p1 = residue 0..7 left at the end of a block, p2 = what follows it
		g.fillBlockTo(9000 + r.Intn(20000))
		extra := 0
		if r.Intn(5) == 0 {
			extra = 1
		}
		g.fit(p1, extra)
		switch p2 {
		case 0:
			g.add(0, "len0")
		case 1:
			g.add(1+r.Intn(3), "len1-3")
		case 2:
			g.add(10+r.Intn(2000), "medium")
		default:
			g.add(blockSize-20+r.Intn(blockSize), "multi-block")
		}
		for k := r.Intn(4); k > 0; k-- {
			g.small()
		}
		if r.Intn(2) == 0 {
			g.fillBlockTo(5000 + r.Intn(24000))
			g.fit(r.Intn(10), 0)
			switch r.Intn(3) {
			case 0:
				g.add(0, "len0")
			case 1:
				g.small()
			default:
				g.medium()
			}
		}
		for k := r.Intn(5); k > 0; k-- {
			g.small()
		}
	case "tiny":
		if r.Intn(4) > 0 {
			// a few hundred tiny records straddling the first block boundary, behind one large record
			g.add(20000+r.Intn(9000), "medium")
			stop := blockSize + 300 + r.Intn(3000)
			for g.l.size < stop && len(g.lens) < 2600 {
				g.small()
			}
			break
		}
		n := 800 + r.Intn(1700)
		for k := 0; k < n; k++ {
			g.small()
		}
		for g.l.size < blockSize+600 && len(g.lens) < 2600 {
			g.small()
		}
	case "big":
		n := 2 + r.Intn(3)
		for k := 0; k < n && g.l.size < 260*1024; k++ {
			for s := r.Intn(4); s > 0; s-- {
				g.small()
			}
			switch r.Intn(3) {
			case 0:
				g.nearBlock()
			default:
				g.multiBlock()
			}
		}
		for s := r.Intn(3); s > 0; s-- {
			g.small()
		}
	case "trap":
		n := 3 + r.Intn(4)
		for k := 0; k < n; k++ {
			for s := r.Intn(6); s > 0; s-- {
				g.small()
			}
			if r.Intn(4) == 0 {
				g.medium()
			}
			g.trapRec()
		}
		if r.Intn(2) == 0 {
			g.fillBlockTo(20000)
			g.fit(r.Intn(8), 0)
			g.trapRec()
		}
		g.small()
	case "micro":
		switch r.Intn(6) {
		case 0: // empty journal
		case 1:
			g.add(0, "len0")
		case 2:
			g.add(1, "len1")
		default:
			for k := 1 + r.Intn(5); k > 0; k-- {
				g.add(r.Intn(21), "len0-20")
			}
		}
	default: // mixed
		target := 12000 + r.Intn(84000)
		for g.l.size < target {
			switch x := r.Intn(100); {
			case x < 50:
				g.small()
			case x < 80:
				g.medium()
			case x < 84:
				g.nearBlock()
			case x < 92:
				g.fit(r.Intn(10), 0)
			case x < 95:
				g.add(blockSize+r.Intn(blockSize), "multi-block")
			default:
				g.add(0, "len0")
			}
		}
	}
	return g
}

type xs64 uint64

func (x *xs64) next() uint64 {
	v := uint64(*x)
	v ^= v << 13
	v ^= v >> 7
	v ^= v << 17
	*x = xs64(v)
	return v
}

func fill(b []byte, seed uint64) {
	x := xs64(seed | 1)
	i := 0
	for ; i+8 <= len(b); i += 8 {
		binary.LittleEndian.PutUint64(b[i:], x.next())
	}
	if i < len(b) {
		var t [8]byte
		binary.LittleEndian.PutUint64(t[:], x.next())
		copy(b[i:], t[:])
	}
}

// makeRecord builds the content of record idx: a 4-byte id (when it fits) and a filler.
func makeRecord(r *rand.Rand, tag byte, idx, L int) []byte {
	b := make([]byte, L)
	if L < 4 {
		// too short for an id: tiny alphabet, so equal records are frequent
		for i := range b {
			b[i] = byte(r.Intn(3))
		}
		return b
	}
	style := r.Intn(24)
	switch style {
	case 0: // zeros
	case 1:
		for i := range b {
			b[i] = 0xff
		}
	case 2: // looks like chunk headers
		fill(b, r.Uint64())
		for p := 4; p+headerSize <= L; p += 7 + r.Intn(40) {
			binary.LittleEndian.PutUint16(b[p+4:], uint16(r.Intn(64)))
			b[p+6] = byte(1 + r.Intn(4))
		}
	default:
		fill(b, r.Uint64())
	}
	if style > 1 || r.Intn(2) == 0 {
		binary.BigEndian.PutUint32(b, uint32(tag&0x7f)<<24|uint32(idx+1))
	}
	return b
}

// makeTrap builds the content of a trap record of length q|1<<bit.
func makeTrap(r *rand.Rand, tag byte, idx, q int, bit uint) ([]byte, []byte) {
	inner := make([]byte, (1<<bit)-headerSize)
	fill(inner, r.Uint64())
	copy(inner, []byte{0xff, 0xff, 0xff, 0xfe, 'T', 'R', 'A', 'P'})
	b := make([]byte, q, q+(1<<bit))
	fill(b, r.Uint64())
	if q >= 4 {
		binary.BigEndian.PutUint32(b, uint32(tag&0x7f)<<24|uint32(idx+1))
	}
	b = encodeChunk(b, tFull, inner)
	return b, inner
}

func makePlan(r *rand.Rand, profile string, p1, p2 int, tag byte) *plan {
	g := genLengths(r, profile, p1, p2)
	p := &plan{profile: profile, kinds: g.kinds}
	for i, L := range g.lens {
		if t, ok := g.trapQ[i]; ok {
			b, inner := makeTrap(r, tag, i, t[0], uint(t[1]))
			p.recs = append(p.recs, b)
			p.traps = append(p.traps, trap{rec: i, q: t[0], bit: uint(t[1]), inner: inner})
			continue
		}
		p.recs = append(p.recs, makeRecord(r, tag, i, L))
	}
	// flush pattern
	p.flushMode = []string{"every", "some", "none"}[r.Intn(3)]
	p.flushAfter = make([]bool, len(p.recs))
	someP := 1 + r.Intn(9)
	for i := range p.flushAfter {
		switch p.flushMode {
		case "every":
			p.flushAfter[i] = true
		case "some":
			p.flushAfter[i] = r.Intn(10) < someP
		}
	}
	// how each record is handed to Write
	p.splits = make([][]int, len(p.recs))
	for i, rec := range p.recs {
		L := len(rec)
		switch x := r.Intn(10); {
		case x < 6:
		case x < 7 && L <= 64: // byte by byte
			for k := 1; k < L; k++ {
				p.splits[i] = append(p.splits[i], k)
			}
		case L == 0: // one or two empty writes
			p.splits[i] = []int{0}
		default:
			n := 1 + r.Intn(4)
			cuts := make([]int, n)
			for k := range cuts {
				cuts[k] = r.Intn(L + 1)
			}
			sortInts(cuts)
			p.splits[i] = cuts
		}
	}
	p.end = []string{"close", "close", "flush", "flush+close", "reset", "close+reset"}[r.Intn(6)]
	p.flusher = r.Intn(2) == 0
	p.desc = fmt.Sprintf("profile=%s p=%d/%d records=%d bytes=%d flush=%s end=%s flusher=%v",
		profile, p1, p2, len(p.recs), g.l.size, p.flushMode, p.end, p.flusher)
	return p
}

func sortInts(a []int) {
	for i := 1; i < len(a); i++ {
		for j := i; j > 0 && a[j-1] > a[j]; j-- {
			a[j-1], a[j] = a[j], a[j-1]
		}
	}
}

// ---- underlying writers

type sink struct {
	b       []byte
	flushes int
}

func (s *sink) Write(p []byte) (int, error) {
	s.b = append(s.b, p...)
	return len(p), nil
}

type flushSink struct{ sink }

func (s *flushSink) Flush() error { s.flushes++; return nil }

type sinkI interface {
	Write(p []byte) (int, error)
	bytes() []byte
}

func (s *sink) bytes() []byte { return s.b }

func newSink(flusher bool) sinkI {
	if flusher {
		return &flushSink{}
	}
	return &sink{}
}

// flushPoint: after a Flush returned, the underlying writer held n bytes and
// nrec records had been handed over completely.
type flushPoint struct{ n, nrec int }

type written struct {
	data   []byte
	points []flushPoint
	err    string // first unexpected error of the Writer ("" if none)
}

// writeRecords drives w through the records of p (without the end operation).
// upto < len(p.recs) stops in the middle of record `upto` (used for the
// journal that precedes a Reset).
func writeRecords(w *journal.Writer, s sinkI, p *plan, out *written) {
	for i, rec := range p.recs {
		jw, err := w.Next()
		if err != nil {
			out.err = fmt.Sprintf("Next (record %d): %v", i, err)
			return
		}
		prev := 0
		for _, cut := range append(append([]int{}, p.splits[i]...), len(rec)) {
			n, err := jw.Write(rec[prev:cut])
			if err != nil || n != cut-prev {
				out.err = fmt.Sprintf("Write (record %d, %d bytes): n=%d err=%v", i, cut-prev, n, err)
				return
			}
			prev = cut
		}
		if p.flushAfter[i] {
			if err := w.Flush(); err != nil {
				out.err = fmt.Sprintf("Flush (after record %d): %v", i, err)
				return
			}
			out.points = append(out.points, flushPoint{len(s.bytes()), i + 1})
		}
	}
}

// writeSession writes p.pre (if any) and then p through one Writer and returns
// what reached the underlying writers.
func writeSession(p *plan) (main, pre *written) {
	main = &written{}
	var w *journal.Writer
	ms := newSink(p.flusher)
	if p.pre != nil {
		pre = &written{}
		ps := newSink(p.pre.flusher)
		w = journal.NewWriter(ps)
		writeRecords(w, ps, p.pre, pre)
		if pre.err == "" {
			switch p.preUse {
			case 2:
				if err := w.Close(); err != nil {
					pre.err = "Close: " + err.Error()
				}
			case 3:
				if err := w.Flush(); err != nil {
					pre.err = "Flush: " + err.Error()
				}
			}
		}
		// Reset finishes the pending journal on the old writer.
		if err := w.Reset(ms); err != nil && pre.err == "" {
			pre.err = "Reset: " + err.Error()
		}
		pre.data = ps.bytes()
	} else {
		w = journal.NewWriter(ms)
	}
	writeRecords(w, ms, p, main)
	if main.err == "" {
		step := func(what string, err error) {
			if err != nil && main.err == "" {
				main.err = what + ": " + err.Error()
			}
		}
		switch p.end {
		case "close":
			step("Close", w.Close())
		case "flush":
			step("Flush", w.Flush())
		case "flush+close":
			step("Flush", w.Flush())
			step("Close", w.Close())
		case "reset":
			step("Reset", w.Reset(&sink{}))
		case "close+reset":
			step("Close", w.Close())
			step("Reset", w.Reset(&sink{}))
		}
	}
	main.data = ms.bytes()
	return main, pre
}
