package main

// Independent model of the journal wire format (written from the format
// description, not from the code under test): where every chunk of a record
// sequence must lie, plus a block-local reference parser used only to detect
// CRC coincidences (so that the oracle stays exact).

import (
	"encoding/binary"
	"hash/crc32"
)

const (
	blockSize  = 32 * 1024
	headerSize = 7

	tFull   = 1
	tFirst  = 2
	tMiddle = 3
	tLast   = 4
)

var typeName = [...]string{"?", "full", "first", "middle", "last"}

var castagnoli = crc32.MakeTable(crc32.Castagnoli)

// maskedCRC is the checksum stored in a chunk header: CRC-32C over the type
// byte and the payload, rotated and offset (LevelDB masking).
func maskedCRC(typ byte, payload []byte) uint32 {
	c := crc32.Update(0, castagnoli, []byte{typ})
	c = crc32.Update(c, castagnoli, payload)
	return (c>>15 | c<<17) + 0xa282ead8
}

type chunk struct {
	off int // stream offset of the 7-byte header
	n   int // payload length
	typ byte
	rec int // index of the record it belongs to
}

type span struct {
	start, end int // [start,end): first header byte .. last payload byte + 1
	c0, c1     int // chunks[c0:c1]
}

type layout struct {
	chunks []chunk
	recs   []span
	size   int
}

// headerPos returns where the header of the next record goes when the previous
// record ended at stream offset pos (fewer than 7 bytes left in a block are padded).
func headerPos(pos int) int {
	in := pos % blockSize
	if in != 0 && blockSize-in < headerSize {
		return pos + (blockSize - in)
	}
	return pos
}

// appendRecord lays out one record of length L whose header search starts at pos.
func (l *layout) appendRecord(L int) {
	h := headerPos(l.size)
	sp := span{start: h, c0: len(l.chunks)}
	remaining := L
	first := true
	for {
		space := blockSize - h%blockSize - headerSize
		take := remaining
		if take > space {
			take = space
		}
		remaining -= take
		var typ byte
		switch {
		case remaining == 0 && first:
			typ = tFull
		case remaining == 0:
			typ = tLast
		case first:
			typ = tFirst
		default:
			typ = tMiddle
		}
		l.chunks = append(l.chunks, chunk{off: h, n: take, typ: typ, rec: len(l.recs)})
		h += headerSize + take
		first = false
		if remaining == 0 {
			break
		}
		// a non-final chunk always fills its block
	}
	sp.end = h
	sp.c1 = len(l.chunks)
	l.recs = append(l.recs, sp)
	l.size = h
}

func computeLayout(lengths []int) *layout {
	l := &layout{}
	for _, L := range lengths {
		l.appendRecord(L)
	}
	return l
}

// encodeChunk appends one chunk to dst.
func encodeChunk(dst []byte, typ byte, payload []byte) []byte {
	var h [headerSize]byte
	binary.LittleEndian.PutUint32(h[0:4], maskedCRC(typ, payload))
	binary.LittleEndian.PutUint16(h[4:6], uint16(len(payload)))
	h[6] = typ
	dst = append(dst, h[:]...)
	return append(dst, payload...)
}

// encode is the reference encoder: the byte stream the format prescribes for recs.
func encode(recs [][]byte) []byte {
	lens := make([]int, len(recs))
	for i, r := range recs {
		lens[i] = len(r)
	}
	l := computeLayout(lens)
	out := make([]byte, 0, l.size)
	for _, ch := range l.chunks {
		for len(out) < ch.off {
			out = append(out, 0)
		}
		sp := l.recs[ch.rec]
		// payload offset of this chunk inside its record
		po := 0
		for k := sp.c0; l.chunks[k].off != ch.off; k++ {
			po += l.chunks[k].n
		}
		out = encodeChunk(out, ch.typ, recs[ch.rec][po:po+ch.n])
	}
	return out
}

// refValidated walks one block of a (damaged) stream the way the format
// prescribes (a chunk is accepted only if type, length and checksum are valid;
// anything else ends the block) and returns the accepted chunks as
// (offset-in-stream, total size) pairs.
func refValidated(stream []byte, block int) [][2]int {
	lo := block * blockSize
	if lo >= len(stream) {
		return nil
	}
	hi := lo + blockSize
	if hi > len(stream) {
		hi = len(stream)
	}
	var out [][2]int
	p := lo
	for p+headerSize <= hi {
		sum := binary.LittleEndian.Uint32(stream[p : p+4])
		ln := int(binary.LittleEndian.Uint16(stream[p+4 : p+6]))
		typ := stream[p+6]
		if typ < tFull || typ > tLast {
			break
		}
		if p+headerSize+ln > hi {
			break
		}
		if sum != maskedCRC(typ, stream[p+headerSize:p+headerSize+ln]) {
			break
		}
		out = append(out, [2]int{p, headerSize + ln})
		p += headerSize + ln
	}
	return out
}
