// Worker for C12: journal framing round-trips and contains damage.
//
// One case = one generated journal (record-length sequence aimed at block-end
// residues, flush pattern, Write splitting, end operation, optionally a Writer
// that was used before and Reset) written through journal.Writer, read back
// undamaged in several ways (exact round trip), and then read back under a
// suite of truncations and alterations in tolerant and in strict mode, each
// judged by the oracles of DESIGN.md C12.
package main

import (
	"bytes"
	"fmt"
	"math/rand"

	"verif/wk"
)

func main() { wk.Main("C12", run) }

var profiles = []string{"residue", "mixed", "tiny", "big", "trap", "micro", "residue", "mixed"}

func run(c *wk.Ctx) {
	n := c.Pick(3072, 6144)
	for i := 0; i < n; i++ {
		if !c.Mine(i) {
			continue
		}
		runCase(c, i)
	}
}

type budget struct {
	exhaustiveMax          int // journals up to this size are truncated at every offset
	truncInt, truncRand    int
	hdrChunks              int
	bytes, pads, bursts    int
	zeros, tails, combos   int
	flushPoints, roundtrip int
}

func budgets(c *wk.Ctx) budget {
	if c.Quick() {
		return budget{exhaustiveMax: 3000, truncInt: 260, truncRand: 140, hdrChunks: 14, bytes: 120, pads: 6, bursts: 40,
			zeros: 40, tails: 50, combos: 30, flushPoints: 6, roundtrip: 3}
	}
	return budget{exhaustiveMax: 96 * 1024, truncInt: 1500, truncRand: 700, hdrChunks: 48, bytes: 500, pads: 12, bursts: 150,
		zeros: 150, tails: 160, combos: 120, flushPoints: 16, roundtrip: 6}
}

func runCase(c *wk.Ctx, i int) {
	r := c.Rand(i)
	// Case i belongs to round i/16, slot i%16; the profile rotates with the round so
	// that every shard (i mod nshards) sees every profile. The residue (0..7) left
	// at a block end and what follows it are fixed by the ordinal of the case among
	// the "residue" cases, so every seed visits every (residue, follower) pair.
	np := len(profiles)
	round, slot := i/16, i%16
	profile := profiles[(slot+round)%np]
	ord := 0
	for q := 0; q < slot; q++ {
		if profiles[(q+round)%np] == "residue" {
			ord++
		}
	}
	ord += round * 4
	p1, p2 := ord%8, (ord/8)%4
	p := makePlan(r, profile, p1, p2, 0x10)
	if r.Intn(3) == 0 {
		p.preUse = 1 + r.Intn(3)
		pp := "micro"
		if r.Intn(3) == 0 {
			pp = "mixed"
		}
		p.pre = makePlan(r, pp, r.Intn(8), r.Intn(4), 0x20)
		p.pre.end = ""
		p.desc += fmt.Sprintf(" writer-reused(after %s journal of %d records, %s)", pp, len(p.pre.recs),
			[]string{"", "pending record", "closed", "flushed"}[p.preUse])
	}
	c.Begin(i, p.desc)
	bud := budgets(c)

	// ---- write
	var mainW, preW *written
	if c.Guard(i, "journal.Writer", func() { mainW, preW = writeSession(p) }) {
		c.Eval()
		c.Count("writer_panics", 1)
		return
	}
	lens := make([]int, len(p.recs))
	for k, rec := range p.recs {
		lens[k] = len(rec)
	}
	l := computeLayout(lens)
	witness := func() map[string]interface{} {
		return map[string]interface{}{"case": i, "journal": p.desc, "record_lengths": lens, "flush_after": p.flushAfter,
			"write_splits": p.splits, "stream_bytes": len(mainW.data), "expected_stream_bytes": l.size}
	}
	if mainW.err != "" {
		c.Eval()
		c.Violation(i, "writer-error", "the Writer failed on an in-memory writer: "+mainW.err, witness())
		return
	}
	if preW != nil && preW.err != "" {
		c.Eval()
		c.Violation(i, "writer-error", "the Writer (journal before Reset) failed on an in-memory writer: "+preW.err, witness())
		return
	}
	coverLayout(c, p, l)

	// ---- exact round trip, several ways of reading
	x := &rdr{}
	nviol := 0
	rt := func(what string, stream []byte, recs [][]byte, strict, checksum bool, variant int, slow, fresh bool) bool {
		mode := fmt.Sprintf("strict=%v checksum=%v variant=%d slow=%v fresh=%v", strict, checksum, variant, slow, fresh)
		if c.Guard(i, "journal.Reader(undamaged)", func() { x.run(stream, strict, checksum, variant, slow, fresh, r) }) {
			x.jr = nil
			nviol++
			return false
		}
		c.Eval()
		c.Count("roundtrips", 1)
		if v := judgeExact(x, recs); v != nil {
			w := witness()
			w["reader"] = mode
			w["what"] = what
			w["records_read"] = len(x.idx)
			w["end_error"] = fmt.Sprint(x.endErr)
			if len(stream) <= 4096 {
				w["stream_hex"] = fmt.Sprintf("%x", stream)
			}
			c.Violation(i, v.sig, fmt.Sprintf("[%s; %s] %s", what, mode, v.msg), w)
			nviol++
			return false
		}
		return true
	}
	ok := rt("main journal", mainW.data, p.recs, false, true, rvFast, false, true) &&
		rt("main journal", mainW.data, p.recs, true, true, rvFast, false, false)
	for k := 0; ok && k < bud.roundtrip; k++ {
		ok = rt("main journal", mainW.data, p.recs, r.Intn(2) == 0, r.Intn(3) > 0, r.Intn(4), r.Intn(3) == 0, r.Intn(3) == 0)
	}
	if ok && preW != nil {
		ok = rt("journal finished by Reset", preW.data, p.pre.recs, false, true, rvFast, false, false) &&
			rt("journal finished by Reset", preW.data, p.pre.recs, true, true, r.Intn(4), false, false)
		c.Count("writer_reset_reuse", 1)
		c.Count("writer_reset_reuse_"+[]string{"", "pending", "closed", "flushed"}[p.preUse], 1)
	}
	// what had reached the underlying writer when a Flush returned is a complete journal
	if ok && len(mainW.points) > 0 {
		pts := mainW.points
		idx := r.Perm(len(pts))
		if len(idx) > bud.flushPoints {
			idx = idx[:bud.flushPoints]
		}
		idx = append(idx, len(pts)-1)
		for _, k := range idx {
			if !ok {
				break
			}
			pt := pts[k]
			if pt.n > len(mainW.data) {
				c.Violation(i, "flush-point-beyond-stream", "bytes present after a Flush are missing at the end", witness())
				ok = false
				break
			}
			ok = rt(fmt.Sprintf("prefix present after the Flush that followed record %d", pt.nrec-1), mainW.data[:pt.n], p.recs[:pt.nrec], true, true, rvFast, false, false)
			c.Count("flush_prefixes_checked", 1)
		}
	}
	if ok {
		ok = partialReads(c, i, r, x, p, mainW.data)
	}
	c.Count("journals", 1)
	c.Count("records_written", int64(len(p.recs)))
	c.Count("chunks_written", int64(len(l.chunks)))
	c.Count("bytes_written", int64(len(mainW.data)))
	c.Max("largest_journal_bytes", int64(len(mainW.data)))
	c.Max("most_records_in_a_journal", int64(len(p.recs)))
	c.Count("flush_pattern_"+p.flushMode, 1)
	c.Count("end_"+p.end, 1)
	c.Count("flushes", int64(len(mainW.points)))
	c.Count("reader_reset_reuse", int64(x.resets))
	if !ok {
		return
	}

	// ---- damage
	if !bytes.Equal(mainW.data, encode(p.recs)) {
		// The stream reads back correctly but is not byte for byte what the format
		// prescribes. Damage verdicts need the byte span of every record: they are
		// still given if every chunk sits where the model puts it (valid header with
		// the expected length at the expected offset; type and padding bytes may
		// differ) -- otherwise spans cannot be attributed and the journal is skipped.
		c.Count("journals_with_unexpected_wire_bytes", 1)
		if !sameStructure(mainW.data, l) {
			c.Count("journals_with_unknown_structure", 1)
			return
		}
	}
	s := &suite{c: c, i: i, r: r, p: p, l: l, data: mainW.data, work: append([]byte(nil), mainW.data...),
		x: x, offs: map[int]int{}, counts: map[string]int64{}}
	s.ks, s.ids = knownSet(p.recs)
	for k, ch := range l.chunks {
		s.offs[ch.off] = k
	}
	exhaustive := len(s.data) <= bud.exhaustiveMax
	s.truncations(exhaustive, bud.truncInt, bud.truncRand)
	hc := bud.hdrChunks
	if profile == "micro" {
		hc = 1 << 20
	}
	s.headers(hc)
	s.randomBytes(bud.bytes)
	s.paddingBytes(bud.pads)
	s.bursts(bud.bursts)
	s.zeroRanges(bud.zeros)
	s.tails(bud.tails)
	s.combos(bud.combos)

	c.Evals(s.evals)
	for k, v := range s.counts {
		c.Count(k, v)
	}
	c.Count("damaged_streams_judged", int64(s.evals/2))
	c.Count("tolerant_records_dropped", int64(s.tol.dropped))
	c.Count("tolerant_records_droppable", int64(s.tol.droppable))
	c.Count("strict_stopped_with_corruption_error", int64(s.str.errStops))
	c.Count("strict_clean_eof", int64(s.str.cleanEOF))
	c.Count("strict_clean_eof_with_torn_tail", int64(s.str.cleanEOFShort))
	c.Count("journals_damaged", 1)
	if s.nviol == 0 && !s.dead && (len(s.data) > blockSize) && s.tol.dropped > 0 && s.str.errStops > 0 {
		c.Nontrivial(fmt.Sprintf("case-%d", i))
	}
	if c.WantSample() && profile != "micro" {
		show := lens
		if len(show) > 24 {
			show = show[:24]
		}
		c.Sample(map[string]interface{}{"case": i, "journal": p.desc, "first_record_lengths": show,
			"stream_bytes": len(s.data), "chunks": len(l.chunks), "damaged_streams_judged": s.evals / 2,
			"damage_counts": s.counts, "tolerant_records_dropped": s.tol.dropped, "tolerant_records_droppable": s.tol.droppable,
			"strict_error_stops": s.str.errStops, "strict_clean_eof": s.str.cleanEOF})
	}
}

// sameStructure reports whether data has a validating chunk of the modelled
// length at every modelled offset and ends where the model ends.
func sameStructure(data []byte, l *layout) bool {
	if len(data) != l.size {
		return false
	}
	for _, ch := range l.chunks {
		h := data[ch.off : ch.off+headerSize]
		if int(h[4])|int(h[5])<<8 != ch.n || h[6] < tFull || h[6] > tLast {
			return false
		}
		sum := uint32(h[0]) | uint32(h[1])<<8 | uint32(h[2])<<16 | uint32(h[3])<<24
		if sum != maskedCRC(h[6], data[ch.off+headerSize:ch.off+headerSize+ch.n]) {
			return false
		}
	}
	return true
}

// partialReads: Next may be called without reading the current record to its
// end; the records that are read completely must still come back exactly.
func partialReads(c *wk.Ctx, i int, r *rand.Rand, x *rdr, p *plan, data []byte) bool {
	if len(p.recs) == 0 {
		return true
	}
	ok := true
	c.Guard(i, "journal.Reader(partial reads)", func() {
		strict := r.Intn(2) == 0
		src := bytes.NewReader(data)
		if x.jr == nil {
			x.run(nil, strict, true, rvFast, false, true, r)
		}
		x.jr.Reset(src, nil, strict, true)
		buf := make([]byte, 0, 1024)
		for k, rec := range p.recs {
			jr, err := x.jr.Next()
			if err != nil {
				c.Violation(i, "roundtrip-differs", fmt.Sprintf("Next for record %d failed with %v after earlier records were read only partly (strict=%v)", k, err, strict),
					map[string]interface{}{"case": i, "journal": p.desc, "record": k})
				ok = false
				return
			}
			want := len(rec)
			full := r.Intn(3) > 0
			if !full {
				want = r.Intn(len(rec) + 1)
				c.Count("records_read_partly", 1)
			}
			if cap(buf) < want+1 {
				buf = make([]byte, 0, 2*want+1)
			}
			got := buf[:0]
			for len(got) < want {
				n, e := jr.Read(got[len(got):want])
				got = got[:len(got)+n]
				if e != nil {
					break
				}
			}
			extra := 0
			if full {
				var one [1]byte
				extra, _ = jr.Read(one[:])
			}
			if !bytes.Equal(got, rec[:want]) || extra != 0 {
				c.Violation(i, "roundtrip-differs", fmt.Sprintf("record %d read back differently when earlier records were read only partly (strict=%v, wanted %d bytes, got %d, extra %d)", k, strict, want, len(got), extra),
					map[string]interface{}{"case": i, "journal": p.desc, "record": k})
				ok = false
				return
			}
		}
		c.Eval()
		c.Count("roundtrips_with_partial_reads", 1)
	})
	return ok
}

// coverLayout records which (residue x chunk type) cells and length classes the journal hit.
func coverLayout(c *wk.Ctx, p *plan, l *layout) {
	for k, sp := range l.recs {
		last := l.chunks[sp.c1-1]
		left := blockSize - sp.end%blockSize
		if sp.end%blockSize == 0 {
			left = 0
		}
		if left <= headerSize {
			next := "end-of-journal"
			if k+1 < len(l.recs) {
				next = typeName[l.chunks[l.recs[k+1].c0].typ]
			}
			c.Distinct("cells", fmt.Sprintf("left=%d/ended=%s/next=%s", left, typeName[last.typ], next))
			c.Count(fmt.Sprintf("block_end_residue_%d", left), 1)
		}
		L := len(p.recs[k])
		switch {
		case L == 0:
			c.Count("len_0", 1)
		case L == 1:
			c.Count("len_1", 1)
		case L < 4:
			c.Count("len_2_3", 1)
		case L >= blockSize-headerSize-1 && L <= blockSize-headerSize+1:
			c.Count("len_blocksize_minus_7_pm1", 1)
		case L >= 2*(blockSize-headerSize):
			c.Count("len_2_blocks_or_more", 1)
		}
		if sp.c1-sp.c0 > 1 {
			c.Count("records_in_several_chunks", 1)
		}
	}
	for _, ch := range l.chunks {
		c.Count("chunk_"+typeName[ch.typ], 1)
		space := blockSize - ch.off%blockSize - headerSize
		if space <= 8 {
			c.Distinct("cells", fmt.Sprintf("room=%d/chunk=%s/len=%d", space, typeName[ch.typ], min(ch.n, 9)))
		}
		if ch.n == 0 && ch.typ != tFull {
			c.Count("empty_chunks_of_multi_chunk_records", 1)
		}
	}
	c.Count("trap_records", int64(len(p.traps)))
}
