package main

// Driver of the journal Reader under test and the two oracles (tolerant: the
// dynamic-programming embedding; strict: prefix + no silent loss).

import (
	"bytes"
	"fmt"
	"io"
	"math/rand"

	"github.com/syndtr/goleveldb/leveldb/errors"
	"github.com/syndtr/goleveldb/leveldb/journal"
)

type dropCounter struct{ n int }

func (d *dropCounter) Drop(err error) { d.n++ }

// dribble hands out the stream in short, irregular reads.
type dribble struct {
	b []byte
	r *rand.Rand
}

func (d *dribble) Read(p []byte) (int, error) {
	if len(d.b) == 0 {
		return 0, io.EOF
	}
	n := 1 + d.r.Intn(5000)
	if n > len(p) {
		n = len(p)
	}
	if n > len(d.b) {
		n = len(d.b)
	}
	copy(p, d.b[:n])
	d.b = d.b[n:]
	return n, nil
}

type byteReader interface{ ReadByte() (byte, error) }

// rdr is a reusable harness around one journal.Reader (reused through Reset,
// so that its 32 KiB buffer carries stale bytes of earlier streams).
type rdr struct {
	jr    *journal.Reader
	src   bytes.Reader
	arena []byte
	idx   [][2]int // yielded records as arena[lo:hi]
	drops dropCounter

	// result of the last run
	endErr      error // io.EOF: Next reported a clean end; anything else: the error that ended the run
	endInRecord bool  // the ending error came out of a record's Read
	recErrs     int   // records abandoned on a read error (tolerant mode)
	nextCalls   int
	runaway     bool
	resets      int
}

func (x *rdr) rec(i int) []byte { return x.arena[x.idx[i][0]:x.idx[i][1]] }

const (
	rvFast  = iota // large Reads straight into the arena
	rvByte         // ReadByte
	rvSmall        // Reads of 1..9 bytes and zero-length Reads
	rvAll          // io.ReadAll
)

// run reads the whole stream. variant selects how records are consumed; slow
// selects an underlying reader that returns short reads; fresh forces a new Reader.
func (x *rdr) run(stream []byte, strict, checksum bool, variant int, slow, fresh bool, r *rand.Rand) {
	x.arena = x.arena[:0]
	x.idx = x.idx[:0]
	x.drops.n = 0
	x.endErr, x.endInRecord, x.recErrs, x.nextCalls, x.runaway = nil, false, 0, 0, false
	var src io.Reader
	if slow {
		src = &dribble{b: stream, r: r}
	} else {
		x.src.Reset(stream)
		src = &x.src
	}
	if x.jr == nil || fresh {
		x.jr = journal.NewReader(src, &x.drops, strict, checksum)
	} else {
		x.jr.Reset(src, &x.drops, strict, checksum)
		x.resets++
	}
	maxCalls := len(stream)/headerSize + len(stream)/blockSize + 16
	for {
		if x.nextCalls > maxCalls {
			x.runaway = true
			return
		}
		x.nextCalls++
		jr, err := x.jr.Next()
		if err != nil {
			x.endErr = err
			return
		}
		lo := len(x.arena)
		var rerr error
		switch variant {
		case rvByte:
			br := jr.(byteReader)
			for {
				b, e := br.ReadByte()
				if e != nil {
					rerr = e
					break
				}
				x.arena = append(x.arena, b)
			}
		case rvSmall:
			var tmp [9]byte
			for {
				n, e := jr.Read(tmp[:r.Intn(10)])
				x.arena = append(x.arena, tmp[:n]...)
				if e != nil {
					rerr = e
					break
				}
			}
		case rvAll:
			b, e := io.ReadAll(jr)
			x.arena = append(x.arena, b...)
			rerr = e
			if e == nil {
				rerr = io.EOF
			}
		default:
			for {
				if cap(x.arena)-len(x.arena) < 4096 {
					na := make([]byte, len(x.arena), 2*cap(x.arena)+65536)
					copy(na, x.arena)
					x.arena = na
				}
				n, e := jr.Read(x.arena[len(x.arena):cap(x.arena)])
				x.arena = x.arena[:len(x.arena)+n]
				if e != nil {
					rerr = e
					break
				}
			}
		}
		if rerr == io.EOF {
			x.idx = append(x.idx, [2]int{lo, len(x.arena)})
			continue
		}
		// a reader error on a record: the record does not count as yielded
		x.arena = x.arena[:lo]
		if strict {
			x.endErr = rerr
			x.endInRecord = true
			return
		}
		x.recErrs++
	}
}

// ---- oracles

type verdict struct {
	sig, msg string
}

// judgeExact: the undamaged stream must give back exactly the records.
func judgeExact(x *rdr, recs [][]byte) *verdict {
	if x.runaway {
		return &verdict{"reader-does-not-terminate", fmt.Sprintf("more than %d Next calls on an undamaged stream", x.nextCalls)}
	}
	for j := 0; j < len(x.idx) && j < len(recs); j++ {
		if !bytes.Equal(x.rec(j), recs[j]) {
			return &verdict{"roundtrip-differs", fmt.Sprintf("record %d read back differently (wrote %d bytes, read %d bytes)", j, len(recs[j]), len(x.rec(j)))}
		}
	}
	if len(x.idx) != len(recs) || x.endErr != io.EOF || x.recErrs != 0 {
		return &verdict{"roundtrip-differs", fmt.Sprintf("wrote %d records, read back %d (records with read error: %d, end: %v)", len(recs), len(x.idx), x.recErrs, x.endErr)}
	}
	return nil
}

// dmgInfo says what was done to the stream: bytes at and after cut are missing
// or foreign; damaged[b] is set if block b holds an altered byte.
type dmgInfo struct {
	cut     int
	damaged []bool // nil = none
}

func (d *dmgInfo) droppable(s span) bool {
	if s.end > d.cut {
		return true
	}
	if d.damaged == nil {
		return false
	}
	for b := s.start / blockSize; b <= (s.end-1)/blockSize && b < len(d.damaged); b++ {
		if d.damaged[b] {
			return true
		}
	}
	return false
}

// known interns record contents: equal contents share one id.
type known map[string]int32

func knownSet(recs [][]byte) (known, []int32) {
	k := known{}
	ids := make([]int32, len(recs))
	for i, r := range recs {
		id, ok := k[string(r)]
		if !ok {
			id = int32(len(k))
			k[string(r)] = id
		}
		ids[i] = id
	}
	return k, ids
}

type tolStats struct{ dropped, droppable int }

// dpState is the reusable working memory of judgeTolerant.
type dpState struct {
	cur, nxt [][2]int // sorted, disjoint, non-adjacent closed intervals of output positions
	yid      []int32  // lazily interned yielded records (-2: not looked up yet, -1: unknown content)
}

// judgeTolerant: there must be an order-preserving embedding of the yielded
// records into the originals in which every skipped original is droppable
// (touches a damaged block or reaches past the cut) and every matched original
// lies wholly before the cut; the stream must end in io.EOF.
//
// Dynamic program: after the first i originals, the set of output positions j
// such that yielded[0:j] embeds admissibly into originals[0:i], kept as a list
// of intervals. A droppable original keeps the set and may extend each interval
// by one; a non-droppable original must be matched (set = matched positions + 1).
func judgeTolerant(x *rdr, recs [][]byte, ks known, ids []int32, l *layout, d *dmgInfo, st *tolStats, dp *dpState) *verdict {
	if x.runaway {
		return &verdict{"reader-does-not-terminate", fmt.Sprintf("more than %d Next calls", x.nextCalls)}
	}
	if x.endErr != io.EOF {
		return &verdict{"tolerant-stream-error", fmt.Sprintf("tolerant reader ended with %v instead of io.EOF", x.endErr)}
	}
	m := len(x.idx)
	n := len(recs)
	dp.yid = dp.yid[:0]
	for j := 0; j < m; j++ {
		dp.yid = append(dp.yid, -2)
	}
	yid := func(j int) int32 {
		if dp.yid[j] == -2 {
			if id, ok := ks[string(x.rec(j))]; ok {
				dp.yid[j] = id
			} else {
				dp.yid[j] = -1
			}
		}
		return dp.yid[j]
	}
	cur := append(dp.cur[:0], [2]int{0, 0})
	nxt := dp.nxt[:0]
	ndrop := 0
	fail := -1
	for i := 0; i < n; i++ {
		dr := d.droppable(l.recs[i])
		if dr {
			ndrop++
		}
		matchable := l.recs[i].end <= d.cut
		if len(cur) == 1 && cur[0][0] == cur[0][1] {
			// one position: compare the bytes directly (no interning needed)
			j := cur[0][0]
			eq := matchable && j < m && bytes.Equal(x.rec(j), recs[i])
			switch {
			case dr && eq:
				cur[0][1] = j + 1
			case dr:
			case eq:
				cur[0] = [2]int{j + 1, j + 1}
			default:
				fail = i
			}
			if fail >= 0 {
				break
			}
			continue
		}
		nxt = nxt[:0]
		if dr {
			for _, iv := range cur {
				if b := iv[1]; matchable && b < m && yid(b) == ids[i] {
					iv[1] = b + 1
				}
				if k := len(nxt) - 1; k >= 0 && nxt[k][1]+1 >= iv[0] {
					if iv[1] > nxt[k][1] {
						nxt[k][1] = iv[1]
					}
				} else {
					nxt = append(nxt, iv)
				}
			}
		} else if matchable {
			for _, iv := range cur {
				for j := iv[0]; j <= iv[1] && j < m; j++ {
					if yid(j) != ids[i] {
						continue
					}
					if k := len(nxt) - 1; k >= 0 && nxt[k][1] == j {
						nxt[k][1] = j + 1
					} else {
						nxt = append(nxt, [2]int{j + 1, j + 1})
					}
				}
			}
		}
		cur, nxt = nxt, cur
		if len(cur) == 0 {
			fail = i
			break
		}
	}
	dp.cur, dp.nxt = cur, nxt
	if fail < 0 {
		fail = n
		for _, iv := range cur {
			if iv[0] <= m && m <= iv[1] {
				fail = -1
			}
		}
	}
	if fail >= 0 {
		return classifyTolerant(x, recs, ks, l, d, fail)
	}
	st.dropped += n - m
	st.droppable += ndrop
	return nil
}

// classifyTolerant names the reason why no embedding exists (plain greedy walk
// with unrestricted skipping decides between "lost" and "order/duplicate").
func classifyTolerant(x *rdr, recs [][]byte, ks known, l *layout, d *dmgInfo, at int) *verdict {
	m := len(x.idx)
	for j := 0; j < m; j++ {
		if _, ok := ks[string(x.rec(j))]; !ok {
			return &verdict{"yielded-record-never-written", fmt.Sprintf("tolerant reader yielded as record %d a %d-byte record that was never written", j, len(x.rec(j)))}
		}
	}
	i := 0
	firstLost := -1
	pastCut := -1
	for j := 0; j < m; j++ {
		for i < len(recs) && !bytes.Equal(x.rec(j), recs[i]) {
			if firstLost < 0 && !d.droppable(l.recs[i]) {
				firstLost = i
			}
			i++
		}
		if i == len(recs) {
			return &verdict{"tolerant-order-or-duplicate", fmt.Sprintf("yielded record %d (%d bytes) does not follow the previously yielded ones in the written order", j, len(x.rec(j)))}
		}
		if l.recs[i].end > d.cut && pastCut < 0 {
			pastCut = i
		}
		i++
	}
	for ; i < len(recs); i++ {
		if firstLost < 0 && !d.droppable(l.recs[i]) {
			firstLost = i
		}
	}
	if firstLost >= 0 {
		s := l.recs[firstLost]
		return &verdict{"tolerant-lost-undamaged-record", fmt.Sprintf("record %d (stream bytes [%d,%d), blocks %d..%d) was not yielded although it lies before the cut (%d) and touches no damaged block",
			firstLost, s.start, s.end, s.start/blockSize, (s.end-1)/blockSize, d.cut)}
	}
	if pastCut >= 0 {
		return &verdict{"yielded-record-past-cut", fmt.Sprintf("record %d was yielded although its bytes reach past the cut at %d", pastCut, d.cut)}
	}
	return &verdict{"tolerant-no-embedding", fmt.Sprintf("no admissible embedding of the %d yielded records into the %d written ones (stuck at original %d)", m, len(recs), at)}
}

type strictStats struct{ errStops, cleanEOF, cleanEOFShort int }

// judgeStrict: output is a prefix of the originals; a clean io.EOF is allowed
// only if every missing original reaches past the cut; any other end must be a
// corruption error.
func judgeStrict(x *rdr, recs [][]byte, ks known, l *layout, d *dmgInfo, st *strictStats) *verdict {
	if x.runaway {
		return &verdict{"reader-does-not-terminate", fmt.Sprintf("more than %d Next calls", x.nextCalls)}
	}
	m := len(x.idx)
	for j := 0; j < m; j++ {
		if j < len(recs) && bytes.Equal(x.rec(j), recs[j]) {
			if l.recs[j].end > d.cut {
				return &verdict{"yielded-record-past-cut", fmt.Sprintf("strict reader yielded record %d although its bytes reach past the cut at %d", j, d.cut)}
			}
			continue
		}
		if _, ok := ks[string(x.rec(j))]; !ok {
			return &verdict{"yielded-record-never-written", fmt.Sprintf("strict reader yielded as record %d a %d-byte record that was never written", j, len(x.rec(j)))}
		}
		return &verdict{"strict-not-a-prefix", fmt.Sprintf("strict reader yielded as record %d something other than written record %d", j, j)}
	}
	if x.endErr == io.EOF {
		for i := m; i < len(recs); i++ {
			if l.recs[i].end <= d.cut {
				s := l.recs[i]
				return &verdict{"strict-silent-loss", fmt.Sprintf("strict reader ended with a clean io.EOF after %d records although record %d (stream bytes [%d,%d)) lies wholly before the cut (%d): skipped without a corruption error",
					m, i, s.start, s.end, d.cut)}
			}
		}
		st.cleanEOF++
		if m < len(recs) {
			st.cleanEOFShort++
		}
		return nil
	}
	if !errors.IsCorrupted(x.endErr) {
		return &verdict{"strict-error-not-corruption", fmt.Sprintf("strict reader stopped with %v (%T), not a corruption error", x.endErr, x.endErr)}
	}
	st.errStops++
	return nil
}
