package main

// The damage suite run on one generated journal: truncations, header / payload
// alterations, bursts, zero-filled ranges, garbage and zero tails, and cut+flip
// combinations, each read in tolerant and in strict mode and judged.

import (
	"encoding/hex"
	"fmt"
	"math/rand"
	"sort"

	"verif/wk"
)

type suite struct {
	c    *wk.Ctx
	i    int
	r    *rand.Rand
	p    *plan
	l    *layout
	data []byte // what the Writer produced (equal to the reference encoding)
	work []byte // scratch copy for in-place edits
	ks   known
	ids  []int32
	x    *rdr
	offs map[int]int // chunk header offset -> chunk index

	tol    tolStats
	str    strictStats
	dp     dpState
	evals  int
	nviol  int
	dead   bool // a panic happened or too many violations: stop the case
	counts map[string]int64
}

func (s *suite) count(k string, n int64) { s.counts[k] += n }

// region classifies a stream offset: header field / payload / padding.
func (s *suite) region(t int) string {
	ch := s.l.chunks
	k := sort.Search(len(ch), func(k int) bool { return ch[k].off > t }) - 1
	if k < 0 {
		return "padding"
	}
	c := ch[k]
	switch d := t - c.off; {
	case d < 4:
		return "hdr_crc"
	case d < 6:
		return "hdr_len"
	case d < 7:
		return "hdr_type"
	case d < headerSize+c.n:
		return "payload"
	}
	return "padding"
}

// collision reports whether, in one of the damaged blocks, a chunk validates
// although it is not an untouched original chunk (a CRC coincidence: 2^-32 per
// altered chunk). Such a case cannot be judged by the oracle and is set aside.
func (s *suite) collision(stream []byte, d *dmgInfo) bool {
	for b, dm := range d.damaged {
		if !dm {
			continue
		}
		for _, v := range refValidated(stream, b) {
			off, size := v[0], v[1]
			if _, ok := s.offs[off]; !ok || off+size > len(s.data) || off+size > d.cut {
				return true
			}
			if string(stream[off:off+size]) != string(s.data[off:off+size]) {
				return true
			}
		}
	}
	return false
}

// judge reads stream in both modes and applies the oracles.
func (s *suite) judge(stream []byte, d *dmgInfo, kind string, detail func() map[string]interface{}) {
	if s.dead {
		return
	}
	if d.damaged != nil && s.collision(stream, d) {
		s.c.Inconclusive("crc-coincidence")
		return
	}
	variant, slow, fresh := rvFast, false, false
	if s.r.Intn(16) == 0 {
		variant, slow, fresh = s.r.Intn(4), s.r.Intn(3) == 0, s.r.Intn(2) == 0
	}
	for _, strict := range []bool{false, true} {
		mode := "tolerant"
		if strict {
			mode = "strict"
		}
		if s.c.Guard(s.i, "journal.Reader("+mode+")", func() {
			s.x.run(stream, strict, true, variant, slow, fresh, s.r)
		}) {
			s.witnessPanic(kind, mode, d, detail)
			s.x.jr = nil
			s.dead = true
			return
		}
		s.evals++
		var v *verdict
		if strict {
			v = judgeStrict(s.x, s.p.recs, s.ks, s.l, d, &s.str)
		} else {
			before := s.tol
			v = judgeTolerant(s.x, s.p.recs, s.ks, s.ids, s.l, d, &s.tol, &s.dp)
			if v == nil && s.tol.dropped > before.dropped {
				s.count("damage_cases_with_drops", 1)
			}
		}
		if v != nil {
			s.violation(v, kind, mode, d, detail)
		}
	}
}

func (s *suite) describe(kind, mode string, d *dmgInfo, detail func() map[string]interface{}) map[string]interface{} {
	lens := make([]int, len(s.p.recs))
	for k, r := range s.p.recs {
		lens[k] = len(r)
	}
	var dmgBlocks []int
	for b, dm := range d.damaged {
		if dm {
			dmgBlocks = append(dmgBlocks, b)
		}
	}
	var spans [][2]int
	if len(s.l.recs) <= 400 {
		for _, sp := range s.l.recs {
			spans = append(spans, [2]int{sp.start, sp.end})
		}
	}
	w := map[string]interface{}{
		"case": s.i, "journal": s.p.desc, "mode": mode, "damage_kind": kind,
		"journal_bytes": len(s.data), "record_lengths": lens, "record_spans": spans,
		"cut": d.cut, "damaged_blocks": dmgBlocks,
		"yielded_records": len(s.x.idx), "records_with_read_error": s.x.recErrs,
		"end_error": fmt.Sprint(s.x.endErr), "end_error_from_record_read": s.x.endInRecord,
		"dropper_calls": s.x.drops.n,
	}
	if detail != nil {
		for k, v := range detail() {
			w[k] = v
		}
	}
	var yl []int
	for k := range s.x.idx {
		if k >= 400 {
			break
		}
		yl = append(yl, len(s.x.rec(k)))
	}
	w["yielded_lengths"] = yl
	if len(s.data) <= 4096 {
		w["journal_hex"] = hex.EncodeToString(s.data)
	}
	return w
}

func (s *suite) violation(v *verdict, kind, mode string, d *dmgInfo, detail func() map[string]interface{}) {
	s.nviol++
	s.c.Violation(s.i, v.sig, fmt.Sprintf("[%s, %s] %s", mode, kind, v.msg), s.describe(kind, mode, d, detail))
	if s.nviol >= 4 {
		s.dead = true
	}
}

func (s *suite) witnessPanic(kind, mode string, d *dmgInfo, detail func() map[string]interface{}) {
	// Guard already recorded the violation with the stack; add the input as a sample line.
	s.count("panics", 1)
	w := s.describe(kind, mode, d, detail)
	s.c.Violation(s.i, "panic-input", fmt.Sprintf("[%s, %s] input that made the reader panic", mode, kind), w)
}

// ---- truncation

func (s *suite) truncate(t int) {
	d := &dmgInfo{cut: t}
	s.count("truncation_offsets_tried", 1)
	if t < len(s.data) {
		s.count("trunc_in_"+s.region(t), 1)
	}
	s.judge(s.data[:t], d, "truncation", func() map[string]interface{} {
		return map[string]interface{}{"truncated_to": t, "first_missing_byte_in": s.region(t)}
	})
}

// interesting returns the offsets around every chunk boundary and block boundary.
func (s *suite) interesting() []int {
	seen := map[int]struct{}{}
	var out []int
	add := func(t int) {
		if t < 0 || t > len(s.data) {
			return
		}
		if _, ok := seen[t]; !ok {
			seen[t] = struct{}{}
			out = append(out, t)
		}
	}
	for _, ch := range s.l.chunks {
		for k := -1; k <= headerSize+1; k++ {
			add(ch.off + k)
		}
		add(ch.off + headerSize + ch.n - 1)
		add(ch.off + headerSize + ch.n)
	}
	for b := blockSize; b <= len(s.data)+1; b += blockSize {
		for k := -8; k <= 8; k++ {
			add(b + k)
		}
	}
	add(0)
	add(len(s.data))
	return out
}

func (s *suite) truncations(exhaustive bool, nInt, nRand int) {
	if exhaustive {
		for t := 0; t <= len(s.data) && !s.dead; t++ {
			s.truncate(t)
		}
		s.count("journals_truncated_at_every_offset", 1)
		return
	}
	in := s.interesting()
	s.r.Shuffle(len(in), func(a, b int) { in[a], in[b] = in[b], in[a] })
	if len(in) > nInt {
		in = in[:nInt]
	}
	for _, t := range in {
		s.truncate(t)
	}
	for k := 0; k < nRand && len(s.data) > 0; k++ {
		s.truncate(s.r.Intn(len(s.data) + 1))
	}
}

// ---- in-place edits

// edit applies newBytes at off, judges and restores. cut < 0 means no cut.
func (s *suite) edit(off int, newBytes []byte, cut int, kind string) {
	if s.dead || off < 0 || off+len(newBytes) > len(s.work) {
		return
	}
	old := append([]byte(nil), s.work[off:off+len(newBytes)]...)
	copy(s.work[off:], newBytes)
	nb := (len(s.work) + blockSize - 1) / blockSize
	d := &dmgInfo{cut: len(s.work), damaged: make([]bool, nb)}
	if cut >= 0 {
		d.cut = cut
	}
	changed := 0
	for k := range newBytes {
		if old[k] != newBytes[k] && off+k < d.cut {
			d.damaged[(off+k)/blockSize] = true
			changed++
		}
	}
	if changed > 0 {
		s.judge(s.work[:d.cut], d, kind, func() map[string]interface{} {
			m := map[string]interface{}{"offset": off, "region": s.region(off), "length": len(newBytes)}
			if len(newBytes) <= 64 {
				m["old_hex"] = hex.EncodeToString(old)
				m["new_hex"] = hex.EncodeToString(newBytes)
			}
			if ci, ok := s.chunkAt(off); ok {
				ch := s.l.chunks[ci]
				m["chunk"] = map[string]interface{}{"header_offset": ch.off, "payload_len": ch.n, "type": typeName[ch.typ], "record": ch.rec}
			}
			return m
		})
	}
	copy(s.work[off:], old)
}

func (s *suite) chunkAt(t int) (int, bool) {
	ch := s.l.chunks
	k := sort.Search(len(ch), func(k int) bool { return ch[k].off > t }) - 1
	if k < 0 || t >= ch[k].off+headerSize+ch[k].n {
		return 0, false
	}
	return k, true
}

func (s *suite) headerDamage(ci int) {
	ch := s.l.chunks[ci]
	var tr *trap
	if ch.typ == tFull {
		for k := range s.p.traps {
			if s.p.traps[k].rec == ch.rec {
				tr = &s.p.traps[k]
			}
		}
	}
	for hb := 0; hb < headerSize && !s.dead; hb++ {
		off := ch.off + hb
		cur := s.data[off]
		reg := s.region(off)
		for bit := uint(0); bit < 8; bit++ {
			s.count("dmg_"+reg, 1)
			s.count("dmg_single_bit", 1)
			if tr != nil && hb >= 4 && hb < 6 && uint(hb-4)*8+bit == tr.bit {
				s.count("trap_length_flips", 1)
			}
			s.edit(off, []byte{cur ^ 1<<bit}, -1, "bit-flip in chunk header")
		}
		vals := []byte{cur ^ byte(1+s.r.Intn(255)), 0x00, 0xff}
		for _, v := range vals {
			if v != cur {
				s.count("dmg_"+reg, 1)
				s.count("dmg_single_byte", 1)
				s.edit(off, []byte{v}, -1, "byte altered in chunk header")
			}
		}
	}
	s.count("chunks_with_every_header_bit_flipped", 1)
}

func (s *suite) headers(maxChunks int) {
	n := len(s.l.chunks)
	pick := map[int]struct{}{}
	for _, t := range s.p.traps {
		sp := s.l.recs[t.rec]
		if sp.c1-sp.c0 == 1 {
			pick[sp.c0] = struct{}{}
		}
	}
	if n > 0 {
		pick[0] = struct{}{}
		pick[n-1] = struct{}{}
	}
	// chunks next to block boundaries first, then a seeded sample
	for k, ch := range s.l.chunks {
		if len(pick) >= maxChunks {
			break
		}
		if ch.typ != tFull || ch.off%blockSize == 0 {
			pick[k] = struct{}{}
		}
	}
	for tries := 0; len(pick) < maxChunks && len(pick) < n && tries < 8*maxChunks; tries++ {
		pick[s.r.Intn(n)] = struct{}{}
	}
	var order []int
	for k := range pick {
		order = append(order, k)
	}
	sort.Ints(order)
	for _, k := range order {
		s.headerDamage(k)
	}
}

func (s *suite) randomBytes(n int) {
	for k := 0; k < n && len(s.data) > 0; k++ {
		off := s.r.Intn(len(s.data))
		if s.r.Intn(4) > 0 { // aim at a payload byte
			ch := s.l.chunks[s.r.Intn(len(s.l.chunks))]
			if ch.n > 0 {
				off = ch.off + headerSize + s.r.Intn(ch.n)
			}
		}
		cur := s.data[off]
		s.count("dmg_"+s.region(off), 1)
		if s.r.Intn(2) == 0 {
			s.count("dmg_single_bit", 1)
			s.edit(off, []byte{cur ^ 1<<uint(s.r.Intn(8))}, -1, "bit-flip")
		} else {
			s.count("dmg_single_byte", 1)
			s.edit(off, []byte{cur ^ byte(1+s.r.Intn(255))}, -1, "byte altered")
		}
	}
}

func (s *suite) paddingBytes(n int) {
	// bytes of the zero padding at block ends (fewer than 7 bytes, never parsed)
	var pads []int
	for k := 1; k < len(s.l.chunks); k++ {
		prev := s.l.chunks[k-1]
		for t := prev.off + headerSize + prev.n; t < s.l.chunks[k].off; t++ {
			pads = append(pads, t)
		}
	}
	for k := 0; k < n && len(pads) > 0; k++ {
		off := pads[s.r.Intn(len(pads))]
		s.count("dmg_padding", 1)
		s.edit(off, []byte{s.data[off] ^ byte(1+s.r.Intn(255))}, -1, "byte altered in block padding")
	}
}

func (s *suite) bursts(n int) {
	for k := 0; k < n && len(s.data) >= 4; k++ {
		ln := 2 + s.r.Intn(3)
		off := s.r.Intn(len(s.data) - ln + 1)
		if s.r.Intn(2) == 0 { // straddle a header
			ch := s.l.chunks[s.r.Intn(len(s.l.chunks))]
			off = ch.off - 2 + s.r.Intn(headerSize+2)
			if off < 0 {
				off = 0
			}
			if off+ln > len(s.data) {
				continue
			}
		}
		nb := make([]byte, ln)
		for q := range nb {
			nb[q] = s.data[off+q] ^ byte(1+s.r.Intn(255))
		}
		s.count("dmg_burst", 1)
		s.edit(off, nb, -1, "burst of 2-4 altered bytes")
	}
}

func (s *suite) zeroRanges(n int) {
	L := len(s.data)
	for k := 0; k < n && L > 0; k++ {
		var off, ln int
		switch s.r.Intn(6) {
		case 0:
			off, ln = s.r.Intn(L), 1+s.r.Intn(16)
		case 1:
			off, ln = s.r.Intn(L), 17+s.r.Intn(600)
		case 2:
			off, ln = s.r.Intn(L), 1+s.r.Intn(2*blockSize)
		case 3: // whole blocks
			nb := (L + blockSize - 1) / blockSize
			b := s.r.Intn(nb)
			off, ln = b*blockSize, blockSize*(1+s.r.Intn(2))
		case 4: // from somewhere to the end of the stream
			off = s.r.Intn(L)
			ln = L - off
		default: // a chunk header exactly
			ch := s.l.chunks[s.r.Intn(len(s.l.chunks))]
			off, ln = ch.off, headerSize+s.r.Intn(3)*s.r.Intn(50)
		}
		if off+ln > L {
			ln = L - off
		}
		if ln <= 0 {
			continue
		}
		s.count("dmg_zero_filled_ranges", 1)
		s.edit(off, make([]byte, ln), -1, "zero-filled range")
	}
}

func (s *suite) combos(n int) {
	for k := 0; k < n && len(s.data) > 1; k++ {
		t := 1 + s.r.Intn(len(s.data))
		if s.r.Intn(2) == 0 {
			in := s.l.chunks[s.r.Intn(len(s.l.chunks))]
			t = in.off + s.r.Intn(headerSize+in.n+1)
			if t < 1 {
				t = 1
			}
		}
		off := s.r.Intn(t)
		s.count("dmg_cut_plus_flip", 1)
		s.edit(off, []byte{s.data[off] ^ 1<<uint(s.r.Intn(8))}, t, "truncation + bit-flip before the cut")
	}
}

// ---- tails

func (s *suite) tails(n int) {
	L := len(s.data)
	in := s.interesting()
	for k := 0; k < n && !s.dead; k++ {
		t := s.r.Intn(L + 1)
		if s.r.Intn(2) == 0 {
			t = in[s.r.Intn(len(in))]
		}
		var gl int
		switch s.r.Intn(4) {
		case 0:
			gl = 1 + s.r.Intn(6)
		case 1:
			gl = 7 + s.r.Intn(58)
		case 2:
			gl = 65 + s.r.Intn(3000)
		default:
			gl = 3000 + s.r.Intn(40000)
		}
		zeros := s.r.Intn(3) == 0
		stream := make([]byte, t+gl)
		copy(stream, s.data[:t])
		if !zeros {
			fill(stream[t:], s.r.Uint64())
		}
		// everything up to the first byte that differs from the original is intact
		p := t
		for p < len(stream) && p < L && stream[p] == s.data[p] {
			p++
		}
		kind := "garbage tail after a cut"
		if zeros {
			kind = "zero tail after a cut"
			s.count("dmg_zero_tails", 1)
		} else {
			s.count("dmg_garbage_tails", 1)
		}
		d := &dmgInfo{cut: p}
		if p < len(stream) {
			nb := (len(stream) + blockSize - 1) / blockSize
			d.damaged = make([]bool, nb)
			for b := p / blockSize; b < nb; b++ {
				d.damaged[b] = true
			}
		}
		s.judge(stream, d, kind, func() map[string]interface{} {
			m := map[string]interface{}{"cut_at": t, "tail_bytes": gl, "zeros": zeros, "first_differing_byte": p}
			if gl <= 64 {
				m["tail_hex"] = hex.EncodeToString(stream[t:])
			}
			return m
		})
	}
}
