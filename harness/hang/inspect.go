// Package hang is the hang inspector: given a call that has not returned, it takes two
// full goroutine dumps some seconds apart and decides whether the caller is in a stable
// blocked state (parked at the same goleveldb frame in both dumps while nothing in
// goleveldb is runnable, sleeping or waiting for a timer).
package hang

import (
	"fmt"
	"regexp"
	"runtime"
	"strconv"
	"strings"
	"time"
)

// G is one goroutine of a dump.
type G struct {
	ID     int64
	State  string
	Frames []string // function names, innermost first
	Text   string
}

var hdr = regexp.MustCompile(`^goroutine (\d+) \[([^\]]+)\]:`)

// Dump returns all goroutines.
func Dump() (string, []G) {
	buf := make([]byte, 4<<20)
	n := runtime.Stack(buf, true)
	txt := string(buf[:n])
	var gs []G
	for _, blk := range strings.Split(txt, "\n\n") {
		lines := strings.Split(blk, "\n")
		m := hdr.FindStringSubmatch(lines[0])
		if m == nil {
			continue
		}
		id, _ := strconv.ParseInt(m[1], 10, 64)
		st := m[2]
		if i := strings.Index(st, ","); i >= 0 {
			st = st[:i]
		}
		g := G{ID: id, State: st, Text: blk}
		for _, l := range lines[1:] {
			if strings.HasPrefix(l, "\t") || strings.HasPrefix(l, "created by") || l == "" {
				continue
			}
			if i := strings.LastIndex(l, "("); i > 0 {
				l = l[:i]
			}
			g.Frames = append(g.Frames, l)
		}
		gs = append(gs, g)
	}
	return txt, gs
}

// GoID returns the calling goroutine's id.
func GoID() int64 {
	buf := make([]byte, 64)
	n := runtime.Stack(buf, false)
	m := hdr.FindStringSubmatch(string(buf[:n]))
	if m == nil {
		// header may be cut: parse manually
		f := strings.Fields(string(buf[:n]))
		if len(f) >= 2 {
			id, _ := strconv.ParseInt(f[1], 10, 64)
			return id
		}
		return -1
	}
	id, _ := strconv.ParseInt(m[1], 10, 64)
	return id
}

const pkg = "github.com/syndtr/goleveldb/"

func firstLevelDB(fr []string) string {
	for _, f := range fr {
		if strings.HasPrefix(f, pkg) {
			return strings.TrimPrefix(f, pkg)
		}
	}
	return ""
}

func blockedState(s string) bool {
	switch s {
	case "chan send", "chan receive", "select", "semacquire", "sync.Mutex.Lock", "sync.RWMutex.RLock", "sync.RWMutex.Lock", "sync.WaitGroup.Wait", "sync.Cond.Wait", "chan send (nil chan)", "chan receive (nil chan)", "select (no cases)":
		return true
	}
	return false
}

// idle background goroutines that are parked by design
func idleByDesign(g G) bool {
	f := firstLevelDB(g.Frames)
	switch {
	case strings.HasSuffix(f, "(*session).refLoop"), strings.HasSuffix(f, "(*DB).mpoolDrain"), strings.HasSuffix(f, "(*DB).compactionError"):
		return g.State == "select"
	}
	return false
}

func isClient(g G) bool {
	for _, f := range g.Frames {
		if strings.HasPrefix(f, "main.") {
			return true
		}
	}
	return false
}

// Verdict of an inspection.
type Verdict struct {
	Stable     bool     `json:"stable_blocked_state"`
	Reason     string   `json:"reason"`
	Parked     string   `json:"parked_frame"`
	ParkedIn   string   `json:"parked_state"`
	Others     []string `json:"other_blocked_goleveldb_goroutines"`
	Active     []string `json:"active_goleveldb_goroutines"`
	Dump1      []string `json:"dump1"`
	Dump2      []string `json:"dump2"`
}

// Inspect examines goroutine gid. activity is a counter of externally visible progress
// (storage operations + log lines); it must not move between the two dumps either.
func Inspect(gid int64, gap time.Duration, activity func() int64) Verdict {
	a1 := activity()
	t1, g1 := Dump()
	time.Sleep(gap)
	a2 := activity()
	t2, g2 := Dump()
	v := Verdict{Dump1: strings.Split(t1, "\n"), Dump2: strings.Split(t2, "\n")}
	find := func(gs []G) *G {
		for i := range gs {
			if gs[i].ID == gid {
				return &gs[i]
			}
		}
		return nil
	}
	c1, c2 := find(g1), find(g2)
	if c1 == nil || c2 == nil {
		v.Reason = "caller goroutine finished during the inspection"
		return v
	}
	f1, f2 := firstLevelDB(c1.Frames), firstLevelDB(c2.Frames)
	v.Parked, v.ParkedIn = f2, c2.State
	if f1 == "" || f1 != f2 || !blockedState(c1.State) || !blockedState(c2.State) || c1.State != c2.State {
		v.Reason = fmt.Sprintf("caller not parked at one goleveldb frame in both dumps (%s [%s] / %s [%s])", f1, c1.State, f2, c2.State)
		return v
	}
	if a1 != a2 {
		v.Reason = "storage/log activity between the dumps"
		return v
	}
	for _, g := range g2 {
		if g.ID == gid {
			continue
		}
		f := firstLevelDB(g.Frames)
		if f == "" || idleByDesign(g) {
			continue
		}
		if !blockedState(g.State) && isClient(g) {
			// a client goroutine that is merely between/inside calls that do return
			// (e.g. getting "closed" errors) is not the DB making progress
			continue
		}
		if blockedState(g.State) {
			v.Others = append(v.Others, fmt.Sprintf("%s [%s]", f, g.State))
		} else {
			v.Active = append(v.Active, fmt.Sprintf("%s [%s]", f, g.State))
		}
	}
	if len(v.Active) > 0 {
		v.Reason = "some goleveldb goroutine is runnable / sleeping / in a timer wait"
		return v
	}
	v.Stable = true
	v.Reason = "caller parked at the same frame in two dumps; no goleveldb goroutine can make progress; no storage or log activity"
	return v
}

// WaitOrInspect waits for done. If it has not happened after first, the wait turns into
// inspections: two dumps gap apart; a verdict is returned only if progress() did not move,
// some goroutine selected by match is parked at the same goleveldb frame in both dumps and
// no non-client goleveldb goroutine is active. Otherwise it keeps waiting; after rounds
// inspections without a verdict it gives up (ok=false, verdict=nil: inconclusive).
func WaitOrInspect(done <-chan struct{}, first, gap time.Duration, rounds int, progress func() int64, match func(G) bool) (ok bool, v *Verdict) {
	select {
	case <-done:
		return true, nil
	case <-time.After(first):
	}
	for r := 0; r < rounds; r++ {
		p1 := progress()
		t1, g1 := Dump()
		select {
		case <-done:
			return true, nil
		case <-time.After(gap):
		}
		p2 := progress()
		t2, g2 := Dump()
		if p1 != p2 {
			continue
		}
		// candidates parked in both dumps at the same frame
		var parked *G
		for i := range g2 {
			if !match(g2[i]) || !blockedState(g2[i].State) {
				continue
			}
			for j := range g1 {
				if g1[j].ID == g2[i].ID && g1[j].State == g2[i].State && firstLevelDB(g1[j].Frames) == firstLevelDB(g2[i].Frames) && firstLevelDB(g2[i].Frames) != "" {
					parked = &g2[i]
				}
			}
		}
		if parked == nil {
			continue
		}
		vd := Verdict{Parked: firstLevelDB(parked.Frames), ParkedIn: parked.State, Dump1: strings.Split(t1, "\n"), Dump2: strings.Split(t2, "\n")}
		for _, g := range g2 {
			f := firstLevelDB(g.Frames)
			if f == "" || idleByDesign(g) || g.ID == parked.ID {
				continue
			}
			if blockedState(g.State) {
				vd.Others = append(vd.Others, fmt.Sprintf("%s [%s]", f, g.State))
			} else if !isClient(g) {
				vd.Active = append(vd.Active, fmt.Sprintf("%s [%s]", f, g.State))
			}
		}
		if len(vd.Active) > 0 {
			continue
		}
		vd.Stable = true
		vd.Reason = "parked at the same frame in two dumps; no progress; no goleveldb goroutine can make progress"
		return false, &vd
	}
	select {
	case <-done:
		return true, nil
	default:
	}
	return false, nil
}
